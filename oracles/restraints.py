"""C07 final-state oracle (filled in below)."""


def check_c07(ctx, job, top):
    return

"""C07 final-state oracle: build-file restraints hold for every generated residue they
select.  Reads the structured build spec of the job (the generator's own record of the
build-file text) and the final residue positions; predicates are written from the
property text, independently of polyply's implementation."""
import math

import numpy as np


def _sel_molecules(top, block):
    return [i for i, m in enumerate(top.molecules) if m.mol_name == block["mol"] and block["from"] <= i < block["to"]]


def _sel_nodes(mol, item):
    return [n for n in mol.nodes if mol.nodes[n]["resname"] == item["resname"]
            and item["start"] <= mol.nodes[n]["resid"] < item["stop"]]


def geom_ok(kind, inout, p, c, par):
    d = np.asarray(p, dtype=float) - np.asarray(c, dtype=float)
    eps = 1e-9
    if kind == "sphere":
        r = np.linalg.norm(d)
        return r <= par[0] + eps if inout == "in" else r >= par[0] - eps
    if kind == "cylinder":
        rad = np.linalg.norm(d[:2])
        inside = rad <= par[0] + eps and abs(d[2]) <= par[1] + eps
        strictly_inside = rad < par[0] - eps and abs(d[2]) < par[1] - eps
        return inside if inout == "in" else not strictly_inside
    if kind == "rectangle":
        inside = all(abs(d[k]) <= par[k] + eps for k in range(3))
        strictly_inside = all(abs(d[k]) < par[k] - eps for k in range(3))
        return inside if inout == "in" else not strictly_inside
    raise ValueError(kind)


def _min_image(d, box):
    return d - box * np.round(d / box)


def _avg_pair_size(ctx, top, ti):
    """mean pair size over the growth-order edges of molecule ti"""
    mol = top.molecules[ti]
    edges = list(mol.search_tree.edges)
    sizes = []
    for a, b in edges:
        if a not in mol.nodes or b not in mol.nodes:
            continue          # stand-in node of a ligand (-lig), taken out of the molecule again after the build
        sa = float(top.volumes[mol.nodes[a].get("template", mol.nodes[a]["resname"])])
        sb = float(top.volumes[mol.nodes[b].get("template", mol.nodes[b]["resname"])])
        sizes.append(0.5 * (sa + sb))
    return (sum(sizes) / len(sizes) if sizes else 0.0), sum(sizes)


def check_c07(ctx, job, top):
    blocks = job.get("build_spec") or []
    box = np.array(top.box, dtype=float) if top.box is not None else None
    t_of = {}
    for m, mol in enumerate(ctx.eng_molecules or []):
        for ti, tm in enumerate(top.molecules):
            if tm is mol:
                t_of[ti] = m
    generated = set()
    for (m, n) in ctx.added:
        generated.add((m, n))
    sf = job["opts"].get("step_fudge", 1.0)
    for block in blocks:
        for ti in _sel_molecules(top, block):
            mol = top.molecules[ti]
            m = t_of.get(ti)
            if m is None or m in ctx.ignored_mols:
                continue
            for it in block["items"]:
                kind = it["kind"]
                if kind in ("sphere", "cylinder", "rectangle"):
                    for n in _sel_nodes(mol, it):
                        if (m, n) not in generated:
                            continue
                        ctx.probe("restraint_selects_generated_residue")
                        p = ctx.model.pos[(m, n)]
                        if not geom_ok(kind, it["inout"], p, it["center"], it["params"]):
                            ctx.fail("C07", f"geom.{kind}.{it['inout']}",
                                     f"residue {mol.nodes[n]['resid']} of molecule {ti} at {np.round(p, 6).tolist()} violates "
                                     f"{it['inout']} {kind} centre {it['center']} parameters {it['params']}")
                elif kind == "rw":
                    normal = np.array(it["normal"], dtype=float)
                    for n in _sel_nodes(mol, it):
                        if (m, n) not in generated or (m, n) not in ctx.grown_from:
                            continue
                        prev = ctx.grown_from[(m, n)]
                        p, q = ctx.model.pos[(m, n)], ctx.model.pos.get((m, prev))
                        if q is None:
                            continue
                        tcur = ctx.model.node_type[(m, n)]
                        tprev = ctx.model.node_type[(m, prev)]
                        step = sf * 0.5 * (ctx.model.sizes[tcur] + ctx.model.sizes[tprev])
                        if 2 * step >= float(np.min(box)):
                            continue      # step direction is ambiguous under the minimum image convention
                        d = p - q
                        v = _min_image(d, box)
                        wrapped = bool(np.linalg.norm(d - v) > 1e-9)
                        ctx.probe("direction_restricted_step")
                        if wrapped:
                            ctx.probe("direction_restricted_step_wrapped")
                        dot = float(np.dot(normal, v))
                        cosang = dot / (np.linalg.norm(normal) * np.linalg.norm(v))
                        ang = math.degrees(math.acos(max(-1.0, min(1.0, cosang))))
                        ok = (np.sign(dot) == np.sign(it["angle"])) and ang <= abs(it["angle"]) + 1e-6
                        if not ok:
                            ctx.fail("C07", "direction",
                                     f"residue {mol.nodes[n]['resid']} of molecule {ti}: step from its predecessor makes "
                                     f"{ang:.2f} deg with normal {it['normal']} (limit {it['angle']})",
                                     step_wrapped=wrapped)
                elif kind == "dist":
                    a, b = it["a"], it["b"]
                    if (m, a) not in ctx.model.pos or (m, b) not in ctx.model.pos:
                        continue
                    if (m, a) not in generated or (m, b) not in generated:
                        continue
                    avg, _ = _avg_pair_size(ctx, top, ti)
                    dist = float(np.linalg.norm(_min_image(ctx.model.pos[(m, a)] - ctx.model.pos[(m, b)], box)))
                    ctx.probe("distance_restraint_checked")
                    if not (it["d"] - it["tol"] - 1e-9 <= dist <= it["d"] + it["tol"] + avg + 1e-9):
                        ctx.fail("C07", "distance", f"molecule {ti}: residues {a},{b} end {dist:.4f} nm apart, restraint "
                                                    f"{it['d']} +- {it['tol']} (+ mean pair size {avg:.4f})")
                elif kind == "pers":
                    a, b = it["start"], it["stop"]
                    if (m, a) not in generated or (m, b) not in generated:
                        continue
                    restr = mol.nodes[b].get("distance_restraints") or []
                    lows = [lo for (ref, up, lo) in restr if ref == a]
                    if not lows:
                        ctx.fail("C07", "persistence.range", f"molecule {ti}: no end-to-end distance was sampled")
                        continue
                    d = float(lows[0])
                    avg, contour = _avg_pair_size(ctx, top, ti)
                    ctx.probe("persistence_sampled")
                    if not (avg - 1e-9 <= d <= contour + 1e-9):
                        ctx.fail("C07", "persistence.range", f"molecule {ti}: sampled end-to-end distance {d:.4f} outside "
                                                             f"[one step {avg:.4f}, contour {contour:.4f}]")
                    dist = float(np.linalg.norm(_min_image(ctx.model.pos[(m, a)] - ctx.model.pos[(m, b)], box)))
                    if not (d - 1e-9 <= dist <= d + avg + 1e-9):
                        ctx.fail("C07", "persistence.built", f"molecule {ti}: built end-to-end distance {dist:.4f}, sampled "
                                                             f"{d:.4f} (+ mean pair size {avg:.4f})")
    # cycles: d = 0 between the two residues joined by the closing edge
    cyc = job["opts"].get("cycles") or []
    tol = job["opts"].get("cycle_tol", 0.0)
    for ti, mol in enumerate(top.molecules):
        if mol.mol_name not in cyc:
            continue
        m = t_of.get(ti)
        if m is None:
            continue
        tree_edges = {frozenset(e) for e in mol.search_tree.edges}
        closing = [e for e in mol.edges if frozenset(e) not in tree_edges]
        if len(closing) != 1:
            continue
        a, b = closing[0]
        if any((m, n) not in generated for n in mol.nodes):
            continue      # a partially supplied ring may be impossible to close: only fully generated rings are judged
        if any(k[0] == ti for k in getattr(ctx, "ligated", {})):
            # while the ring was built it carried stand-in nodes for its ligands (-lig), whose sizes entered polyply's
            # mean step length; they are gone now, so the bound cannot be recomputed exactly: not judged
            ctx.probe("cycle_with_ligands_not_judged")
            continue
        avg, _ = _avg_pair_size(ctx, top, ti)
        dist = float(np.linalg.norm(_min_image(ctx.model.pos[(m, a)] - ctx.model.pos[(m, b)], box)))
        ctx.probe("cycle_checked")
        if dist > tol + avg + 1e-9:
            ctx.fail("C07", "cycle", f"ring molecule {ti} ({mol.number_of_nodes()} residues) declared cyclic: residues {a},{b} "
                                     f"joined by the closing edge end {dist:.4f} nm apart (> tol {tol} + mean pair size {avg:.4f})",
                     ring_size=mol.number_of_nodes())

"""Final-state oracles of world A (C03, C04, C06, C07, C15), written from the property
texts; they read the output file with their own fixed-column reader and the captured
Topology object through its public attributes only."""
import math
import os

import networkx as nx
import numpy as np

from gen import topgen


# ----------------------------------------------------------------------------- .gro reader
def read_gro(path):
    with open(path) as fh:
        lines = fh.read().split("\n")
    if lines and lines[-1] == "":
        lines = lines[:-1]
    title = lines[0]
    natoms = int(lines[1].strip())
    atoms = []
    for ln in lines[2:2 + natoms]:
        atoms.append({"resid": int(ln[0:5]), "resname": ln[5:10].strip(), "atomname": ln[10:15].strip(),
                      "atomid": int(ln[15:20]), "xyz_text": (ln[20:28], ln[28:36], ln[36:44]),
                      "xyz": (float(ln[20:28]), float(ln[28:36]), float(ln[36:44]))})
    rest = lines[2 + natoms:]
    box = [float(x) for x in rest[0].split()] if rest else None
    return {"title": title, "natoms": natoms, "atoms": atoms, "box": box, "nlines": len(lines),
            "extra_lines": rest[1:]}


def write_gro_text(title, atoms, box, atom_numbers=None):
    """atoms: list of (resid, resname, atomname, x, y, z); atom_numbers: the numbers written in the atom-number column
    (default 1, 2, 3 ...; GROMACS does not read them, files pasted together restart them)"""
    out = [title, f"{len(atoms)}"]
    for i, (resid, resname, aname, x, y, z) in enumerate(atoms):
        no = (i + 1) if atom_numbers is None else atom_numbers[i]
        out.append(f"{resid % 100000:5d}{resname:<5s}{aname:>5s}{no % 100000:5d}{x:8.3f}{y:8.3f}{z:8.3f}")
    out.append(" ".join(repr(float(b)) for b in box))
    return "\n".join(out) + "\n"


def write_pdb_text(atoms, box):
    """atoms: list of (resid, resname, atomname, x, y, z) in nm; PDB in Angstrom (3 decimals in nm = 2 in A)"""
    out = []
    if box is not None:          # (a .pdb file need not carry a CRYST1 record)
        out = ["CRYST1%9.3f%9.3f%9.3f  90.00  90.00  90.00 P 1           1" % tuple(10 * b for b in box[:3])]
    for i, (resid, resname, aname, x, y, z) in enumerate(atoms):
        out.append("ATOM  %5d %-4s %-3s A%4d    %8.3f%8.3f%8.3f  1.00  0.00" %
                   ((i + 1) % 100000, aname[:4], resname[:3], resid % 10000, 10 * x, 10 * y, 10 * z))
    out.append("END")
    return "\n".join(out) + "\n"


# ----------------------------------------------------------------------------- helpers
def kabsch_residual(P, Q):
    """max_i |R P_i - Q_i| over the best proper rotation R (det = +1)."""
    P = np.asarray(P, dtype=float)
    Q = np.asarray(Q, dtype=float)
    H = P.T @ Q
    U, S, Vt = np.linalg.svd(H)
    d = np.sign(np.linalg.det(Vt.T @ U.T))
    if d == 0:
        d = 1.0
    D = np.diag([1.0, 1.0, d])
    R = Vt.T @ D @ U.T
    return float(np.max(np.linalg.norm((R @ P.T).T - Q, axis=1))) if len(P) else 0.0


def angle_deg(a, b, c):
    v1 = np.asarray(a) - np.asarray(b)
    v2 = np.asarray(c) - np.asarray(b)
    cosang = np.dot(v1, v2) / (np.linalg.norm(v1) * np.linalg.norm(v2))
    return math.degrees(math.acos(max(-1.0, min(1.0, cosang))))


def gromacs_dihedral_deg(xi, xj, xk, xl):
    """dihedral angle as GROMACS computes it (bondeds dih_angle): angle between the normals m = r_ij x r_kj and
    n = r_kj x r_kl, sign of r_ij . n  (IUPAC convention)"""
    xi, xj, xk, xl = (np.asarray(v, dtype=float) for v in (xi, xj, xk, xl))
    r_ij, r_kj, r_kl = xi - xj, xk - xj, xk - xl
    m = np.cross(r_ij, r_kj)
    n = np.cross(r_kj, r_kl)
    cosphi = np.dot(m, n) / (np.linalg.norm(m) * np.linalg.norm(n))
    phi = math.degrees(math.acos(max(-1.0, min(1.0, cosphi))))
    return phi if np.dot(r_ij, n) >= 0 else -phi


def labelled_key(graph):
    """canonical form of an atom-name labelled bond graph when names are unique, else None"""
    names = nx.get_node_attributes(graph, "atomname")
    vals = list(names.values())
    if len(set(vals)) != len(vals) or len(vals) != graph.number_of_nodes():
        return None
    edges = sorted(tuple(sorted((names[a], names[b]))) for a, b in graph.edges)
    return (tuple(sorted(vals)), tuple(edges))


# ----------------------------------------------------------------------------- driver
def check_all(ctx, job, workdir, props):
    top = ctx.topology
    if top is None:
        return
    gro = None
    out = os.path.join(workdir, "out.gro")
    if not os.path.exists(out):
        ctx.fail("C03", "atoms", "gen_coords returned without writing the output file")
        return
    try:
        gro = read_gro(out)
    except Exception as err:
        ctx.fail("C03", "atoms", f"output file cannot be read as fixed-column .gro: {err!r}")
        return
    from oracles import supplied, restraints
    for oracle in (lambda: check_c03(ctx, job, gro, top), lambda: check_c15(ctx, job, top),
                   lambda: check_c06(ctx, job, gro, top), lambda: supplied.check_c04(ctx, job, gro, top),
                   lambda: restraints.check_c07(ctx, job, top)):
        try:
            oracle()
        except Exception:
            # an oracle may trip over a state that another oracle has already reported as broken (residues without
            # position, non-finite coordinates); with no violation on record it is a genuine harness problem
            if not ctx.viols:
                raise
            ctx.probe("oracle_skipped_on_broken_state")


# ----------------------------------------------------------------------------- C03
def expected_atoms(job):
    """ground-truth atom list [(resid, resname, atomname)] incl. -split renaming"""
    truth = topgen.ground_truth(job["spec"])
    out = []
    for molname, atoms in truth:
        out.append((molname, [(r, rn, an) for r, rn, an, _ in atoms]))
    return out


def check_c03(ctx, job, gro, top):
    truth = expected_atoms(job)
    flat = [(m, a) for m, atoms in truth for a in atoms]
    if gro["natoms"] != len(flat) or len(gro["atoms"]) != len(flat):
        ctx.fail("C03", "atoms", f"output lists {gro['natoms']} atoms ({len(gro['atoms'])} lines), "
                                 f"topology has {len(flat)}")
        return
    if gro["extra_lines"]:
        ctx.fail("C03", "atoms", f"output has {len(gro['extra_lines'])} lines after the box line")
    split = bool(job["opts"].get("split"))
    for i, ((molname, (resid, resname, aname)), got) in enumerate(zip(flat, gro["atoms"])):
        if got["atomname"] != aname or (not split and (got["resname"] != resname or got["resid"] != resid)):
            ctx.fail("C03", "atoms", f"atom {i + 1}: output has {got['resid']}{got['resname']} {got['atomname']}, "
                                     f"topology order has {resid}{resname} {aname} (molecule {molname})")
            break
        if got["atomid"] != (i + 1) % 100000:
            ctx.fail("C03", "atoms", f"atom {i + 1} numbered {got['atomid']}")
            break
    for i, got in enumerate(gro["atoms"]):
        if not all(math.isfinite(v) for v in got["xyz"]):
            ctx.fail("C03", "finite", f"atom {i + 1} has coordinates {got['xyz_text']}")
            break
    # in-memory coordinates finite as well
    for mi, mol in enumerate(top.molecules):
        for a in mol.molecule.nodes:
            p = mol.molecule.nodes[a].get("position")
            if p is None or not np.all(np.isfinite(np.asarray(p, dtype=float))):
                ctx.fail("C03", "finite", f"molecule {mi} atom {a} has position {p}")
                break
    # ---- box
    box = gro["box"]
    o = job["opts"]
    if box is None or len(box) < 3:
        ctx.fail("C03", "box.requested", f"box line missing: {box}")
        return
    if job.get("coord_text") is not None and job.get("coord_box") is not None:
        exp = job["coord_box"]
        tol = 1e-9 if job.get("coord_ext") == "pdb" else 0.0      # .pdb boxes are in Angstrom: float(A)/10
        if any(abs(float(a) - float(b)) > tol for a, b in zip(box[:3], exp[:3])):
            ctx.fail("C03", "box.input", f"output box {box} differs from the box of the input structure {exp}")
    elif o.get("box") is not None:
        if [float(b) for b in box[:3]] != [float(b) for b in o["box"]]:
            ctx.fail("C03", "box.requested", f"output box {box} differs from the requested {o['box']}")
    elif o.get("density") is not None:
        mass = topgen.total_mass(job["spec"])
        L = box[0]
        if not (box[0] == box[1] == box[2]):
            ctx.fail("C03", "box.density", f"density box is not cubic: {box}")
        elif abs(L ** 3 * o["density"] / 1.6605410 - mass) > 2e-4 * mass:
            ctx.fail("C03", "box.density", f"box {L}^3 nm3 at density {o['density']} holds "
                                           f"{L ** 3 * o['density'] / 1.6605410:.4f} amu, topology mass is {mass}")


# ----------------------------------------------------------------------------- C15
def vs_expected(vs, pos):
    frm = [np.asarray(pos[k], dtype=float) for k in vs["from_names"]]
    if vs["kind"] == "n":
        return np.mean(frm, axis=0)
    if vs["kind"] == "2":
        a = vs["params"][0]
        return (1 - a) * frm[0] + a * frm[1]
    funct = vs.get("funct", 1)
    if vs["kind"] == "3" and funct == 1:
        a, b = vs["params"]
        return frm[0] + a * (frm[1] - frm[0]) + b * (frm[2] - frm[0])
    # GROMACS reference manual, "Virtual interaction sites"
    if vs["kind"] == "3" and funct == 2:          # 3fd
        a, b = vs["params"]
        rij, rjk = frm[1] - frm[0], frm[2] - frm[1]
        v = rij + a * rjk
        return frm[0] + b * v / np.linalg.norm(v)
    if vs["kind"] == "3" and funct == 3:          # 3fad
        theta, d = vs["params"]
        rij, rjk = frm[1] - frm[0], frm[2] - frm[1]
        rperp = rjk - (np.dot(rij, rjk) / np.dot(rij, rij)) * rij
        th = math.radians(theta)
        return frm[0] + d * math.cos(th) * rij / np.linalg.norm(rij) + d * math.sin(th) * rperp / np.linalg.norm(rperp)
    if vs["kind"] == "3" and funct == 4:          # 3out
        a, b, c = vs["params"]
        rij, rik = frm[1] - frm[0], frm[2] - frm[0]
        return frm[0] + a * rij + b * rik + c * np.cross(rij, rik)
    if vs["kind"] == "4" and funct == 2:          # 4fdn
        a, b, c = vs["params"]
        rij, rik, ril = frm[1] - frm[0], frm[2] - frm[0], frm[3] - frm[0]
        rja = a * rik - rij
        rjb = b * ril - rij
        rm = np.cross(rja, rjb)
        return frm[0] + c * rm / np.linalg.norm(rm)
    raise ValueError((vs["kind"], funct))


def _independent_size(tmpl, atype_of, nonbond_params):
    """sqrt(mean |v - mean v|^2) over v = (p - cog) + unit(p - cog) * sigma(atype); atoms at the centre count as zero
    vectors; all atoms at the centre -> largest sigma.  None when a sigma is not available."""
    try:
        pts = {k: np.asarray(v, dtype=float) for k, v in tmpl.items()}
        cog = np.mean(list(pts.values()), axis=0)
        vecs = np.zeros((len(pts), 3))
        radii = []
        i = 0
        for k, p in pts.items():
            rad = float(nonbond_params[frozenset([atype_of[k]])]["nb1"])
            d = p - cog
            nrm = float(np.linalg.norm(d))
            if nrm < 1e-9 and len(pts) > 1:
                # an atom (typically a centre-of-geometry virtual site) sits on the centre up to rounding: whether
                # compute_volume's 1e-18 threshold counted it as "at the centre" cannot be told from the centred
                # template - not judged
                return None
            if nrm > 1e-18:
                vecs[i] = d + d / nrm * rad
                i += 1
            else:
                radii.append(rad)
    except (KeyError, TypeError, ValueError):
        return None
    if np.any(vecs):
        return float(np.sqrt(np.mean(np.sum((vecs - vecs.mean(axis=0)) ** 2, axis=1))))
    return max(radii) if radii else None


def check_c15(ctx, job, top):
    spec = job["spec"]
    volumes = top.volumes
    failed_opt = any("Failed to optimize" in msg for _, msg in ctx.log_records)
    if failed_opt:
        ctx.probe("optimisation_fall_through")
    reps = {}          # template key -> representative graph
    by_canon = {}      # canonical labelled graph -> template key
    names_to_keys = {}
    user_templates = job.get("user_templates", {})
    user_volumes = job.get("user_volumes", {})
    seen_keys = set()
    for mi, mol in enumerate(top.molecules):
        templates = getattr(mol, "templates", None)
        if templates is None:
            ctx.fail("C15", "keys", f"molecule {mi} has no templates after template generation")
            return
        for n in mol.nodes:
            nd = mol.nodes[n]
            if "graph" not in nd:
                continue
            if nd.get("ligand_node"):
                continue
            key = nd.get("template")
            graph = nd["graph"]
            names = sorted(nx.get_node_attributes(graph, "atomname").values())
            if key is None or key not in templates:
                ctx.fail("C15", "keys", f"residue ({mi},{n}) {nd['resname']} has no template ({key})")
                return
            canon = labelled_key(graph)
            if canon is not None:
                if canon in by_canon and by_canon[canon] != key:
                    ctx.fail("C15", "share", f"residue ({mi},{n}) {nd['resname']} has the same labelled bond graph as "
                                             f"another residue but a different template")
                by_canon.setdefault(canon, key)
            nk = tuple(names)
            for other_names, other_key in names_to_keys.items():
                if other_names != nk and other_key == key:
                    ctx.fail("C15", "distinct", f"residues with atom names {list(nk)} and {list(other_names)} "
                                                f"share one template")
            names_to_keys.setdefault(nk, key)
            if (key, canon) in seen_keys:
                continue
            seen_keys.add((key, canon))
            tmpl = templates[key]
            if sorted(tmpl.keys()) != names:
                ctx.fail("C15", "keys", f"template of {nd['resname']} has positions for {sorted(tmpl.keys())}, "
                                        f"residue has atoms {names}")
                continue
            arr = np.array([tmpl[k] for k in tmpl], dtype=float)
            if not np.all(np.isfinite(arr)):
                ctx.fail("C15", "centred", f"template of {nd['resname']} is not finite")
                continue
            if np.linalg.norm(arr.mean(axis=0)) > 1e-9:
                ctx.fail("C15", "centred", f"template of {nd['resname']} has centre of geometry "
                                           f"{arr.mean(axis=0).tolist()}")
            if key not in volumes or not (float(volumes[key]) > 0):
                ctx.fail("C15", "positive", f"size of {nd['resname']} is {volumes.get(key)}")
            mtype = next((m for m in spec["moltypes"] if m["name"] == mol.mol_name), {})
            rt = mtype.get("residue_override", {}).get(str(nd["resid"] - 1)) or \
                mtype.get("restype_override", {}).get(nd["resname"]) or spec["restypes"].get(nd["resname"])
            # (a residue that carries the name of a user template but lacks some of its atoms is another residue type)
            is_user = nd["resname"] in user_templates and set(names) == set(user_templates[nd["resname"]])
            if not is_user and any(set(names) == set(ut) for ut in user_templates.values()):
                # another residue NAME with the same labelled graph has a user template: polyply (rightly) uses it for
                # this residue as well; its geometry is the user's, not an optimised one
                continue
            if is_user:
                ut = user_templates[nd["resname"]]
                uarr = {k: np.array(v, dtype=float) for k, v in ut.items()}
                cog = np.mean(list(uarr.values()), axis=0)
                for k in uarr:
                    if k not in tmpl or np.linalg.norm(np.asarray(tmpl[k]) - (uarr[k] - cog)) > 1e-9:
                        ctx.fail("C15", "user.template", f"template of {nd['resname']} supplied in the build file "
                                                         f"was not used unchanged (atom {k})")
                        break
                if ctx.opt_calls.get(nd["resname"]) and not job.get("template_with_subset_variant"):
                    ctx.fail("C15", "user.template", f"a template for {nd['resname']} was supplied but "
                                                     f"{ctx.opt_calls[nd['resname']]} optimisation calls were made for it")
            if nd["resname"] in user_volumes:
                if abs(float(volumes[key]) - user_volumes[nd["resname"]]) > 1e-12:
                    ctx.fail("C15", "user.volume", f"size of {nd['resname']} given as {user_volumes[nd['resname']]} "
                                                   f"but {volumes[key]} is used")
            supplied_names = set(user_volumes) | set(user_templates) | set(job.get("bld_volumes") or {}) | \
                set(job.get("bld_templates") or {})
            if not is_user and nd["resname"] not in supplied_names and not job["opts"].get("split") and key in volumes:
                # a GENERATED size belongs to the residue's own template: the radius of gyration of the template
                # positions, each pushed outwards by the sigma of its atom type (compute_volume's documented
                # definition), recomputed here from the captured template - a size taken over from another residue
                # (e.g. one that merely has the same name) does not satisfy it
                exp = _independent_size(tmpl, {graph.nodes[a]["atomname"]: graph.nodes[a].get("atype") for a in graph.nodes},
                                        getattr(top, "nonbond_params", {}))
                if exp is not None:
                    ctx.probe("generated_size_recomputed")
                    if abs(float(volumes[key]) - exp) > 1e-7 * max(1.0, exp):
                        ctx.fail("C15", "size", f"size of {nd['resname']} (atoms {names}) is {float(volumes[key]):.6f} but its own "
                                                f"template gives {exp:.6f}: not the size generated for this residue")
            if rt is None or is_user or job["opts"].get("split"):
                continue
            anames = [a["name"] for a in rt["atoms"]]
            if sorted(anames) != names:
                continue          # same resname, different content (other molecule type): generic checks only
            nreal = len(anames) - len(rt["vsites"])
            for v, vs in enumerate(rt["vsites"]):
                vsd = dict(vs)
                vsd["from_names"] = [anames[x] for x in vs["from"]]
                exp = vs_expected(vsd, tmpl)
                got = np.asarray(tmpl[anames[nreal + v]], dtype=float)
                if not np.all(np.isfinite(exp)):
                    continue        # degenerate construction (collinear defining atoms)
                if np.linalg.norm(exp - got) > 1e-7:
                    ctx.fail("C15", "vsite", f"virtual site {anames[nreal + v]} of {nd['resname']} sits at "
                                             f"{got.tolist()}, construction gives {exp.tolist()}")
            if not failed_opt:
                for a, b, l, _k in rt["bonds"]:
                    d = np.linalg.norm(np.asarray(tmpl[anames[a]]) - np.asarray(tmpl[anames[b]]))
                    if abs(d - l) > 0.05 + 1e-9:
                        ctx.fail("C15", "tolerance", f"{nd['resname']} reported optimised but bond "
                                                     f"{anames[a]}-{anames[b]} is {d:.4f} (target {l})")
                for a, b, l in rt["constraints"]:
                    d = np.linalg.norm(np.asarray(tmpl[anames[a]]) - np.asarray(tmpl[anames[b]]))
                    if abs(d - l) > 0.05 + 1e-9:
                        ctx.fail("C15", "tolerance", f"{nd['resname']} reported optimised but constraint "
                                                     f"{anames[a]}-{anames[b]} is {d:.4f} (target {l})")
                for a, b, c, d, q0, _k in rt.get("impropers", []):
                    phi = gromacs_dihedral_deg(tmpl[anames[a]], tmpl[anames[b]], tmpl[anames[c]], tmpl[anames[d]])
                    diff = abs(phi - q0)
                    if diff > 5 + 1e-6:
                        ctx.fail("C15", "tolerance", f"{nd['resname']} reported optimised but improper "
                                                     f"{anames[a]}-{anames[b]}-{anames[c]}-{anames[d]} is {phi:.3f} (target {q0})")
                for a, b, c, th, _k in rt["angles"]:
                    ang = angle_deg(tmpl[anames[a]], tmpl[anames[b]], tmpl[anames[c]])
                    if abs(ang - th) > 5 + 1e-6:
                        ctx.fail("C15", "tolerance", f"{nd['resname']} reported optimised but angle "
                                                     f"{anames[a]}-{anames[b]}-{anames[c]} is {ang:.3f} (target {th})")
    if len({k for k, _ in seen_keys}) >= 2:
        ctx.probe("two_or_more_templates")


# ----------------------------------------------------------------------------- C06
def check_c06(ctx, job, gro, top):
    fudge = job["opts"].get("bfudge", 0.4)
    # index of the first atom of each molecule in the output file
    offset = 0
    dist_by_key = {}
    for mi, mol in enumerate(top.molecules):
        natoms = mol.molecule.number_of_nodes()
        atom_order = {a: offset + i for i, a in enumerate(mol.molecule.nodes)}
        templates = getattr(mol, "templates", {})
        for n in mol.nodes:
            nd = mol.nodes[n]
            if not nd.get("backmap", False) or "graph" not in nd:
                continue
            if mol.mol_name in (job["opts"].get("ignore") or []):
                continue
            key = nd.get("template")
            if key not in templates:
                continue
            tmpl = templates[key]
            atoms = list(nd["graph"].nodes)
            names = [mol.molecule.nodes[a]["atomname"] for a in atoms]
            if any(nm not in tmpl for nm in names):
                ctx.fail("C06", "own-template", f"residue ({mi},{n}) has an atom without template position")
                continue
            cg = np.asarray(nd["position"], dtype=float)
            X = np.array([mol.molecule.nodes[a]["position"] for a in atoms], dtype=float)
            T = np.array([tmpl[nm] for nm in names], dtype=float) * fudge
            if not (np.all(np.isfinite(X)) and np.all(np.isfinite(cg)) and np.all(np.isfinite(T))):
                continue          # non-finite coordinates are C03.finite's finding; nothing to fit here
            if len(atoms) >= 2:
                ctx.probe("backmapped_multi_atom_residue")
            if np.linalg.norm(X.mean(axis=0) - cg) > 1e-9:
                ctx.fail("C06", "centre", f"residue ({mi},{n}) {nd['resname']}: centre of geometry of its atoms "
                                          f"{X.mean(axis=0).tolist()} differs from the residue position {cg.tolist()}")
                continue
            res = kabsch_residual(T, X - cg)
            # 1e-6 nm: the SVD of a (nearly) planar template is ill-conditioned, residuals of ~1e-8 occur for exact
            # rigid copies (seen once in 27 000 thorough runs); a mirror image of a chiral template leaves >= 1e-3
            if res > 1e-6:
                # distinguish a reflected/deformed copy from a name mix-up
                dT = np.linalg.norm(T[:, None, :] - T[None, :, :], axis=2)
                dX = np.linalg.norm(X[:, None, :] - X[None, :, :], axis=2)
                if np.max(np.abs(dT - dX)) <= 1e-8:
                    ctx.fail("C06", "rigid-proper", f"residue ({mi},{n}) {nd['resname']} is a mirror image of its "
                                                    f"template (best proper rotation leaves {res:.3e} nm)")
                else:
                    sortd = np.max(np.abs(np.sort(dT.ravel()) - np.sort(dX.ravel())))
                    clause = "own-template" if sortd <= 1e-8 else "rigid-proper"
                    ctx.fail("C06", clause, f"residue ({mi},{n}) {nd['resname']} is not a rotated, scaled copy of its "
                                            f"template (residual {res:.3e} nm, factor {fudge})")
                continue
            dX = np.linalg.norm(X[:, None, :] - X[None, :, :], axis=2)
            order = np.argsort(names)
            dXs = dX[np.ix_(order, order)]
            if key in dist_by_key:
                if dist_by_key[key].shape != dXs.shape or np.max(np.abs(dist_by_key[key] - dXs)) > 1e-7:
                    ctx.fail("C06", "congruent", f"copies of residue type {nd['resname']} are not congruent")
            else:
                dist_by_key[key] = dXs
            # same checks on the numbers of the output file (3 decimals, truncated)
            G = np.array([gro["atoms"][atom_order[a]]["xyz"] for a in atoms], dtype=float)
            if np.max(np.abs(G - X)) > 1.1e-3:
                ctx.fail("C06", "centre", f"residue ({mi},{n}): output file coordinates differ from the built ones "
                                          f"by {np.max(np.abs(G - X)):.4f} nm")
        offset += natoms

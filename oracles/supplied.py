"""C04 final-state oracle: supplied coordinates are preserved; only missing parts are built."""
import numpy as np


def _topo_index(ctx, top):
    """engine molecule index -> topology molecule index (identity of the objects)"""
    idx = {}
    if ctx.eng_molecules is None:
        return idx
    for m, mol in enumerate(ctx.eng_molecules):
        for ti, tm in enumerate(top.molecules):
            if tm is mol:
                idx[m] = ti
                break
    return idx


def check_c04(ctx, job, gro, top):
    if job.get("coord_text") is None:
        return
    ignored = set(job.get("ignored_instances", []))
    # (i) atoms supplied at atom level keep exactly their coordinates (file and memory)
    offset = 0
    flat_nodes = []
    for ti, mol in enumerate(top.molecules):
        for a in mol.molecule.nodes:
            flat_nodes.append((ti, a))
    for key, xyz in job.get("supplied_atoms", {}).items():
        a = int(key)
        got = gro["atoms"][a]["xyz"]
        ti, node = flat_nodes[a]
        clause = "ignored.untouched" if ti in ignored else "atom.kept"
        if tuple(got) != tuple(xyz):
            ctx.fail("C04", clause, f"atom {a + 1} supplied at {xyz} is written at {list(got)}",
                     ignored_present=bool(ignored))
            break
        mem = top.molecules[ti].molecule.nodes[node].get("position")
        # .pdb input is in Angstrom: the value read is float(A)/10, one ulp away from float(nm)
        tol = 1e-9 if job.get("coord_ext") == "pdb" else 0.0
        if mem is None or np.max(np.abs(np.asarray(mem, dtype=float) - np.asarray(xyz, dtype=float))) > tol:
            ctx.fail("C04", clause, f"atom {a + 1} supplied at {xyz} holds {mem} in the built system",
                     ignored_present=bool(ignored))
            break
    if job.get("supplied_atoms"):
        ctx.probe("atoms_supplied")
    # (ii) residues supplied as centres are backmapped around exactly those centres
    for key, xyz in job.get("supplied_centres", {}).items():
        parts = key.split(":")
        inst, resid = int(parts[0]), int(parts[1])
        rname = parts[2] if len(parts) > 2 else None
        mol = top.molecules[inst]
        node = next((n for n in mol.nodes if mol.nodes[n]["resid"] == resid
                     and (rname is None or mol.nodes[n]["resname"] == rname)), None)
        if node is None:
            continue
        nd = mol.nodes[node]
        pos = np.asarray(nd.get("position"), dtype=float)
        if not np.array_equal(pos, np.asarray(xyz, dtype=float)):
            ctx.fail("C04", "centre.kept", f"residue {resid} of molecule {inst} supplied as centre {xyz} "
                                           f"has position {pos.tolist()}")
            break
        if inst in ignored:
            continue
        atoms = list(nd["graph"].nodes)
        X = np.array([mol.molecule.nodes[a]["position"] for a in atoms], dtype=float)
        if np.linalg.norm(X.mean(axis=0) - pos) > 1e-9:
            ctx.fail("C04", "centre.kept", f"residue {resid} of molecule {inst}: atoms are centred at "
                                           f"{X.mean(axis=0).tolist()}, supplied centre is {xyz}")
            break
    if job.get("supplied_centres"):
        ctx.probe("centres_supplied")
    # (iii) the set of residues that ever received a generated position
    t_of = _topo_index(ctx, top)
    added = set()
    for (m, n) in ctx.added:
        ti = t_of.get(m)
        if ti is None:
            continue
        if (ti, n) in ctx.ligated:
            # the node stood in for a ligand molecule while its host was built (-lig)
            ti, n = ctx.ligated[(ti, n)]
            ctx.probe("ligand_placed_with_host")
        added.add((ti, n))
    # compared at the level of atoms (global index in topology order), so that residue numbers that start again inside
    # a molecule and residues re-cut with -split need no special treatment
    from gen import topgen
    owner = {}                 # global atom index -> (instance, resid, resname) of the topology as written
    by_res = {}
    gi = 0
    for inst, (_molname, atoms) in enumerate(topgen.ground_truth(job["spec"])):
        for (resid, resname, _an, _t) in atoms:
            owner[gi] = (inst, resid, resname)
            by_res.setdefault((inst, resid, resname), []).append(gi)
            gi += 1
    gidx = {}
    k = 0
    for ti, mol in enumerate(top.molecules):
        for a in mol.molecule.nodes:
            gidx[(ti, a)] = k
            k += 1
    added_atoms = set()
    for (ti, n) in added:
        for a in top.molecules[ti].nodes[n]["graph"].nodes:
            added_atoms.add(gidx[(ti, a)])
    expected_atoms = set()
    for ent in job.get("expected_built", []):
        if ent[0] in ignored:
            continue
        if len(ent) > 2:
            expected_atoms.update(by_res.get((ent[0], ent[1], ent[2]), []))
        else:
            for key, idxs in by_res.items():
                if key[0] == ent[0] and key[1] == ent[1]:
                    expected_atoms.update(idxs)
    expected = expected_atoms
    if added_atoms != expected_atoms:
        extra = sorted({owner[a] for a in added_atoms - expected_atoms})
        missing = sorted({owner[a] for a in expected_atoms - added_atoms})
        ctx.fail("C04", "built.set", f"generated residues differ from (named for rebuilding + missing from the input): "
                                     f"unexpectedly generated {extra[:6]}, not generated {missing[:6]}",
                 ignored_present=bool(ignored))
    if expected and (job.get("supplied_atoms") or job.get("supplied_centres")):
        ctx.probe("supplied_and_generated_in_one_system")
    # (iv) no event ever names an ignored molecule
    for (m, n) in ctx.touched:
        ti = t_of.get(m)
        if ti in ignored:
            ctx.fail("C04", "ignored.untouched", f"ignored molecule {ti} took part in building (residue {n})",
                     ignored_present=True)
            break
    if ignored:
        ctx.probe("ignored_molecule_present")
        last = max(ignored)
        if last < len(top.molecules) - 1:
            ctx.probe("ignored_molecule_not_last")

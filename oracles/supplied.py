"""C04 final-state oracle (filled in below)."""


def check_c04(ctx, job, gro, top):
    return

"""World-C job pieces: gen_params operations over generated force fields / shipped libraries."""
from gen import ffgen

PALETTE = [0, 1, 7, 1234]

# (library, sequence) pairs over the shipped libraries (block names exist in those libraries)
LIB_JOBS = [("martini3", ["PEO:4"]), ("martini3", ["PS:3"]), ("martini3", ["PMMA:3"]), ("martini3", ["PE:4"]),
            ("martini2", ["PEO:3"]), ("martini2", ["PS:3"]), ("2016H66", ["PMMA:3"]), ("2016H66", ["PEO:4"]),
            ("gromos53A6", ["P3HT:3"]), ("martini3", ["PEO:2", "PS:2"]), ("martini3", ["P3HT:3"])]


# jobs that gen_params must refuse in a fresh process: the block only exists in ANOTHER shipped library
LIB_FAIL_JOBS = [("martini2", ["PMA:3"]), ("martini2", ["PMMA:2"]), ("gromos53A6", ["PEO:3"]), ("2016H66", ["P3HT:3"]),
                 ("oplsaaLigParGen", ["PS:3"]), ("gromos53A6", ["PS:2"])]


def _wrap(g, tokens, sep):
    """tokens joined by sep, wrapped over 1-4 lines at drawn positions (sequence files are usually line-wrapped)"""
    n = len(tokens)
    cuts = sorted(set(g.sample(range(1, n), min(n - 1, g.choice([0, 1, 1, 2, 3]))))) if n > 1 else []
    lines, prev = [], 0
    for c in cuts + [n]:
        lines.append(sep.join(tokens[prev:c]))
        prev = c
    return lines


def txt_graph(g, rg):
    """.txt sequence file (space separated residue names, wrapped) of a plain linear residue graph"""
    lines = _wrap(g, list(rg["resnames"]), " ")
    return {"kind": "file", "ext": ".txt", "text": "\n".join(lines) + "\n", "lines": len(lines)}


def dna_file_graph(g, rg, fmt=None):
    """.fasta / .ig description of a DNA residue graph made by dna_graph (linear) or dna_ring_graph (.ig only)"""
    letters = [r[1] for r in rg["resnames"]]
    fmt = fmt or ("ig" if rg["shape"] == "ring" else g.choice(["ig", "fasta"]))
    lines = _wrap(g, letters, "")
    if fmt == "fasta":
        return {"kind": "file", "ext": ".fasta", "text": "> DNA strand\n" + "\n".join(lines) + "\n", "lines": len(lines)}
    lines[-1] += "2" if rg["shape"] == "ring" else "1"
    head = g.choice(["; DNA\n", "; a comment\n; DNA sequence\n", "; DNA ; twice\n"])
    return {"kind": "file", "ext": ".ig", "text": head + "strand_x\n" + "\n".join(lines) + "\n", "lines": len(lines)}


ONE_LETTER_AA = {"GLY": "G", "ALA": "A", "LYS": "K", "SER": "S", "VAL": "V", "ASP": "D", "PHE": "F", "CYS": "C"}


def protein_fasta_graph(g, rg):
    lines = _wrap(g, [ONE_LETTER_AA[r] for r in rg["resnames"]], "")
    return {"kind": "file", "ext": ".fasta", "text": "> PROTEIN chain\n" + "\n".join(lines) + "\n", "lines": len(lines)}


def make_op(ff, rg, g, out="out.itp", graph_kind=None, **kw):
    kind = graph_kind or ("seq" if (rg["shape"] == "linear" and g.random() < 0.4) else "json")
    if kind == "seq" and (rg["shape"] != "linear" or rg.get("tags") or rg.get("edge_attrs") or rg.get("from_itp")
                          or rg.get("resid_start") is not None):
        kind = "json"
    graph = {"kind": "seq", "seq": ffgen.seq_list(rg)} if kind == "seq" else \
        {"kind": "json", "text": ffgen.graph_json(rg)}
    if kind == "seq" and graph_kind is None and len(rg["resnames"]) >= 2 and g.random() < 0.3:
        graph = txt_graph(g, rg)
    op = {"op": "gen_params", "name": "POL", "files": ffgen.render_files(ff), "graph": graph, "out": out,
          "resgraph": rg}
    op.update(kw)
    return op


def lib_op(g, out="out.itp", other_than=None, must_fail=False):
    pool = LIB_FAIL_JOBS if must_fail else LIB_JOBS
    if other_than is not None:
        pool = [j for j in pool if j[0] != other_than] or pool
    lib, seq = g.choice(pool)
    return {"op": "gen_params", "name": "LIBMOL", "files": [], "lib": [lib], "graph": {"kind": "seq", "seq": list(seq)},
            "out": out, "resgraph": None}


def failing_op(g, ff, rg, out="fail.itp"):
    """an input that gen_params must refuse: unknown residue name / missing file section"""
    mode = g.choice(["unknown_block", "bad_seq", "broken_ff"])
    op = make_op(ff, rg, g, out=out, graph_kind="seq" if rg["shape"] == "linear" else "json")
    op["expect"] = "fail"
    if mode == "unknown_block":
        op["graph"] = {"kind": "seq", "seq": ["NOPE:2"]}
    elif mode == "bad_seq":
        op["graph"] = {"kind": "seq", "seq": ["RA-3"]}
    else:
        op["files"] = [("broken.ff", "[ moleculetype ]\nRA 1\n[ atoms ]\n1 P0 1 RA\n")]
    op["resgraph"] = None
    return op


PROTEIN_RES = ["GLY", "ALA", "LYS", "SER", "VAL", "ASP", "PHE", "CYS"]


def protein_graph(g):
    """linear protein residue graph over martini3 amino acids (terminal modifications are applied by gen_params)"""
    n = g.randint(2, 7)
    seq = [g.choice(PROTEIN_RES) for _ in range(n)]
    return {"shape": "linear", "resnames": seq, "edges": [[k, k + 1] for k in range(n - 1)]}


def protein_op(g, rg, out="out.itp", **json_kw):
    return {"op": "gen_params", "name": "PROT", "files": [], "lib": ["martini3"],
            "graph": {"kind": "json", "text": ffgen.graph_json(rg, **json_kw)}, "out": out, "resgraph": rg}


def dna_graph(g):
    """single strand over the shipped DNA blocks (5' and 3' terminal residue names at the ends)"""
    n = g.randint(3, 7)
    bases = "ACGT"
    seq = ["D" + g.choice(bases) + "5"] + ["D" + g.choice(bases) for _ in range(n - 2)] + ["D" + g.choice(bases) + "3"]
    return {"shape": "linear", "resnames": seq, "edges": [[k, k + 1] for k in range(n - 1)]}


def dna_ring_graph(g):
    """circular single strand: interior residue names only, the closing edge tagged linktype circle"""
    n = g.randint(4, 7)
    seq = ["D" + g.choice("ACGT") for _ in range(n)]
    edges = [[k, k + 1] for k in range(n - 1)] + [[n - 1, 0]]
    return {"shape": "ring", "resnames": seq, "edges": edges,
            "edge_attrs": [{} for _ in range(n - 1)] + [{"linktype": "circle"}]}


def dna_op(g, rg, lib, dsdna, out="out.itp", **json_kw):
    return {"op": "gen_params", "name": "DNA", "files": [], "lib": [lib], "dsdna": bool(dsdna),
            "graph": {"kind": "json", "text": ffgen.graph_json(rg, **json_kw)}, "out": out, "resgraph": rg}


LIB_BLOCKS = {"martini3": ["PEO", "PS", "PMMA", "PE", "P3HT", "PMA", "PSS", "PVA"], "martini2": ["PEO", "PS", "PE", "PP"],
              "2016H66": ["PMMA", "PEO", "PE", "PVA"], "gromos53A6": ["P3HT"], "oplsaaLigParGen": ["PEO"]}


def lib_mixed_op(g, base, out="h.itp"):
    """earlier call over the SAME library and molecule name whose sequence mixes the base's block with another one"""
    lib = base["lib"][0]
    b0 = base["graph"]["seq"][0].split(":")[0]
    others = [b for b in LIB_BLOCKS.get(lib, []) if b != b0]
    if not others:
        return None
    seq = [f"{b0}:2", f"{g.choice(others)}:2"]
    if g.random() < 0.5:
        seq.reverse()
    return {"op": "gen_params", "name": base["name"], "files": [], "lib": [lib], "graph": {"kind": "seq", "seq": seq},
            "out": out, "resgraph": None}

"""Workload generator for world C: force fields in vermouth .ff syntax (blocks + links,
split over files) and residue graphs (-seq lists, .json files).

Definitions are non-conflicting by construction: every (section, atom-name tuple) is
defined by exactly one link, no link replaces an attribute another one selects on.
"""
import json

BLOCK_LETTERS = "ABCDEF"


def gen_block(g, idx, atypes):
    name = "R" + BLOCK_LETTERS[idx]
    pre = BLOCK_LETTERS[idx]
    n = g.randint(1, 4)
    atoms = []
    for k in range(n):
        # (some values carry more than six significant digits, as atomistic force fields do)
        charge = g.choice([0.0, 0.0, 0.5, -0.5, 1.0, 0.1176667, -0.4123456])
        atoms.append({"name": f"{pre}{k + 1}", "atype": g.choice(atypes), "charge": charge,
                      "mass": g.choice([36.0, 45.0, 72.0, 126.90447, 22.98977]), "cgnr": k + 1 if g.random() < 0.7 else 1})
    shape = g.choice(["chain", "tree"])
    pairs = [(k, k + 1) if shape == "chain" else (g.randrange(k + 1), k + 1) for k in range(n - 1)]
    inter = {"bonds": [], "constraints": [], "angles": [], "dihedrals": []}
    for a, b in pairs:
        blen = round(g.uniform(0.25, 0.45), 3)
        r = g.random()
        if r < 0.15:
            # conditional pair: flexible bond / constraint
            inter["bonds"].append({"atoms": [a, b], "params": ["1", str(blen), "5000"], "meta": {"ifdef": "FLEXIBLE"}})
            inter["constraints"].append({"atoms": [a, b], "params": ["1", str(blen)], "meta": {"ifndef": "FLEXIBLE"}})
        elif r < 0.3:
            inter["constraints"].append({"atoms": [a, b], "params": ["1", str(blen)], "meta": {}})
        else:
            inter["bonds"].append({"atoms": [a, b], "params": ["1", str(blen), str(g.choice([3000, 5000, 7000]))], "meta": {}})
    if n >= 3 and g.random() < 0.6:
        adj = {k: [] for k in range(n)}
        for a, b in pairs:
            adj[a].append(b)
            adj[b].append(a)
        for b in range(n):
            if len(adj[b]) >= 2:
                meta = {"ifdef": "STIFF"} if g.random() < 0.2 else {}
                inter["angles"].append({"atoms": [adj[b][0], b, adj[b][1]],
                                        "params": [str(g.choice([1, 2])), str(g.choice([100, 120, 150])), "50"], "meta": meta})
                break
    if inter["bonds"] and g.random() < 0.15:
        # the same bond once more under another conditional, same parameters (two distinct terms)
        twin = dict(inter["bonds"][0])
        first = dict(inter["bonds"][0])
        if not first["meta"]:
            first["meta"] = {"ifdef": "FLEXIBLE"}
            inter["bonds"][0] = first
        twin = {"atoms": list(first["atoms"]), "params": list(first["params"]), "meta": {"ifdef": "MINIMIZE"}}
        inter["bonds"].append(twin)
    if n >= 3 and g.random() < 0.15:
        # equal angle terms over the same three atoms listed around different centres (ring-like)
        for tri in ([0, 1, 2], [1, 2, 0], [2, 0, 1]):
            inter["angles"].append({"atoms": tri, "params": ["1", "60", "75"], "meta": {}})
    if n == 4 and shape == "chain" and g.random() < 0.4:
        inter["dihedrals"].append({"atoms": [0, 1, 2, 3], "params": ["1", "180", "2.5", "2"], "meta": {}})
    if g.random() < 0.25:
        # refinement / position restraint directives (no edges, plain interaction lines)
        inter["position_restraints"] = [{"atoms": [0], "params": ["1", "1000", "1000", "1000"],
                                         "meta": {"ifdef": "POSRES"} if g.random() < 0.7 else {}}]
        if n >= 2 and g.random() < 0.6:
            inter["distance_restraints"] = [{"atoms": [0, n - 1], "params": ["1", "0", "1", "0.2", "0.3", "0.4", "1.0"],
                                             "meta": {}}]
        if n >= 2 and g.random() < 0.4:
            inter["angle_restraints_z"] = [{"atoms": [0, 1], "params": ["1", "90", "50", "1"], "meta": {}}]
    return {"name": name, "atoms": atoms, "inter": inter, "nrexcl": g.choice([1, 1, 1, 2, 3]),
            "bare_atoms": g.random() < 0.15}      # [ atoms ] lines without charge and mass columns


def gen_ff(g, nblocks=None, uniform_nrexcl=True, itp_p=0.2, multires_p=0.15, removal_p=0.0):
    atypes = [f"P{i}" for i in range(g.randint(1, 3))]
    nblocks = nblocks or g.randint(1, 3)
    blocks = [gen_block(g, i, atypes) for i in range(nblocks)]
    if uniform_nrexcl:
        for b in blocks:
            b["nrexcl"] = blocks[0]["nrexcl"]
    names = [b["name"] for b in blocks]
    links = []
    all_itp = itp_p > 0 and len(blocks) >= 2 and g.random() < 0.12
    for X in blocks:
        # polyply .itp input syntax: monomer file whose interactions may point into the next residue
        # (atom index > number of atoms); stands for the X-X next-residue link
        X["itp"] = itp_p > 0 and (g.random() < itp_p or all_itp)
        if X["itp"]:
            n = len(X["atoms"])
            X["dangling"] = {"bonds": [{"atoms": [n - 1, n], "params": ["1", str(round(g.uniform(0.3, 0.5), 3)), "4500"],
                                        "meta": {}}]}
            if n >= 2 and g.random() < 0.5:
                X["dangling"]["angles"] = [{"atoms": [n - 2, n - 1, n], "params": ["1", "125", "35"], "meta": {}}]
                if g.random() < 0.4:
                    # a second term over the same atoms across the junction (multi-term interaction)
                    X["dangling"]["angles"].append({"atoms": [n - 2, n - 1, n], "params": ["2", "135.00", "50.0"], "meta": {}})
    for X in blocks:
        for Y in blocks:
            if X is Y and X.get("itp"):
                continue
            lx = X["atoms"][-1]["name"]
            fy = Y["atoms"][0]["name"]
            if g.random() < 0.25:
                # residues joined by a constraint only (like the CYS-CYS bridge of the shipped libraries)
                sec = {"constraints": [{"atoms": [lx, ">" + fy], "params": ["1", str(round(g.uniform(0.3, 0.5), 3))],
                                        "meta": {}}]}
            else:
                # (one in ten of these bonds exists only under #ifdef FLEXIBLE, without an unguarded twin)
                sec = {"bonds": [{"atoms": [lx, ">" + fy],
                                  "params": ["1", str(round(g.uniform(0.3, 0.5), 3)), str(g.choice([3000, 4000, 6000]))],
                                  "meta": {"ifdef": "FLEXIBLE"} if g.random() < 0.1 else {}}]}
            extra = {}
            if len(X["atoms"]) >= 2 and g.random() < 0.6:
                px = X["atoms"][-2]["name"]
                meta = {"ifndef": "NOANG"} if g.random() < 0.2 else {}
                extra["angles"] = [{"atoms": [px, lx, ">" + fy], "params": ["1", str(g.choice([100, 110, 130])), "40"],
                                    "meta": meta}]
            if len(Y["atoms"]) >= 2 and g.random() < 0.4:
                sy = Y["atoms"][1]["name"]
                extra.setdefault("angles", []).append({"atoms": [lx, ">" + fy, ">" + sy],
                                                       "params": ["2", str(g.choice([95, 125, 145])), "30"], "meta": {}})
            if g.random() < 0.5 and extra:
                # the extra interactions in a link of their own (same residue pattern)
                links.append({"resnames": names, "sections": sec})
                links.append({"resnames": names, "sections": extra})
            else:
                sec.update(extra)
                links.append({"resnames": names, "sections": sec})
    for X in blocks:
        if len(X["atoms"]) >= 2 and g.random() < 0.2:
            # unordered ('*') asymmetric link: applies to a bonded residue pair in both directions
            a, b = X["atoms"][0]["name"], X["atoms"][-1]["name"]
            links.append({"resnames": names, "sections": {
                "bonds": [{"atoms": [a, "*" + b], "params": ["6", str(round(g.uniform(0.4, 0.7), 3)), "1500"], "meta": {}}]}})
    for X in blocks:
        if len(X["atoms"]) >= 2 and g.random() < 0.15:
            # a link that selects its atoms on an attribute and replaces that very attribute on the first one
            # (first atom - first atom: no other generated link defines a bond over this atom pair)
            a = X["atoms"][0]
            links.append({"resnames": names, "replace_link": True, "sections": {
                "bonds": [{"atoms": [a["name"] + ' {"atype": "%s", "replace": {"atype": "%sq"}}' % (a["atype"], a["atype"]),
                                     ">" + a["name"] + ' {"atype": "%s"}' % a["atype"]],
                           "params": ["6", "0.55", "120"], "meta": {}}]}})
        if g.random() < 0.2:
            # a restraint directive inside the link that also bonds the two residues (a link without any edge between
            # its residues would match non-neighbouring residues - a degenerate definition that is not generated)
            lx, fx = X["atoms"][-1]["name"], X["atoms"][0]["name"]
            for l in links:
                bonds = l["sections"].get("bonds") or l["sections"].get("constraints") or []
                if bonds and bonds[0]["atoms"] == [lx, ">" + fx]:
                    l["sections"]["distance_restraints"] = [{"atoms": [lx, ">" + fx],
                                                             "params": ["1", "1", "1", "0.3", "0.4", "0.5", "1.0"], "meta": {}}]
                    break
    for X in blocks:
        if len(X["atoms"]) >= 2 and g.random() < 0.2:
            # a link that applies only where the first residue carries the residue-level attribute tag=R (given in the
            # .json sequence file; node attributes of the residue graph are handed down to the atoms)
            p, l, f = X["atoms"][-2]["name"], X["atoms"][-1]["name"], X["atoms"][0]["name"]
            # ([ pairs ] entry together with the bond that makes the two residues neighbours in the link)
            links.append({"resnames": names, "tag_link": True, "sections": {
                "pairs": [{"atoms": [l + ' {"tag": "R"}', ">" + f], "params": ["1", "0.31", "2.5"], "meta": {}}],
                "edges": [{"atoms": [l, ">" + f], "params": [], "meta": {}}]}})
    for X in blocks:
        if g.random() < 0.3:
            # three-residue link along a chain of equal residues
            a = X["atoms"][0]["name"]
            sec3 = {"angles": [{"atoms": [a, ">" + a, ">>" + a], "params": ["1", "140", "20"], "meta": {}}]}
            if g.random() < 0.5:
                # GROMOS style 1-4 pair between the first and the THIRD residue of the link (residues that are not
                # neighbours in the residue graph)
                sec3["pairs"] = [{"atoms": [a, ">>" + a], "params": ["1", "0.29", "1.5"], "meta": {}}]
            links.append({"resnames": names, "sections": sec3})
    if removal_p and g.random() < removal_p:
        # end capping by removal: the last atom of a residue of type X that is not followed by another X is deleted
        # (syntax of the shipped test data: [ atoms ] with replace atomname null, [ non-edges ] to the next residue)
        cands = [b for b in blocks if 2 <= len(b["atoms"]) <= 3 and not b.get("itp")]
        if cands:
            X = g.choice(cands)
            last, first = X["atoms"][-1]["name"], X["atoms"][0]["name"]
            # a cap atom of its own (bonded to the first atom, used by no other link) is what gets deleted
            cap = X["name"][-1] + "H"
            X["atoms"].insert(1, {"name": cap, "atype": X["atoms"][0]["atype"], "charge": 0.0, "mass": 36.0, "cgnr": 1})
            for its in X["inter"].values():
                for it in its:
                    it["atoms"] = [a + 1 if a >= 1 else a for a in it["atoms"]]
            for sec, its in (X.get("dangling") or {}).items():
                for it in its:
                    it["atoms"] = [a + 1 if a >= 1 else a for a in it["atoms"]]
            X["inter"]["bonds"].append({"atoms": [0, 1], "params": ["1", "0.25", "6000"], "meta": {}})
            links.append({"resnames": [X["name"]], "removal_link": True, "sections": {
                "atoms": [{"atoms": [cap + ' {"replace": {"atomname": null}}'], "params": [], "meta": {}}],
                "non-edges": [{"atoms": [last, "+" + first], "params": [], "meta": {}}]}})
            if g.random() < 0.6:
                # a link inside the residue that refers to the cap atom AND defines a term that does not: where the
                # cap is deleted only the terms on it go
                links.append({"resnames": [X["name"]], "sections": {
                    "angles": [{"atoms": [cap, first, last], "params": ["1", "105", "25"], "meta": {}}],
                    "bonds": [{"atoms": [first, last], "params": ["6", "0.52", "150"], "meta": {}}]}})
    for X in blocks:
        if len(X["atoms"]) == 4 and not X.get("itp") and not X["inter"]["dihedrals"] and g.random() < 0.25:
            # a proper and an improper dihedral over the same four atoms of a residue, each defined by a link of its
            # own (separately ordered definitions)
            nm = [a["name"] for a in X["atoms"]]
            links.append({"resnames": [X["name"]], "sections": {
                "dihedrals": [{"atoms": nm, "params": ["1", "180", "2.5", "2"], "meta": {}}]}})
            links.append({"resnames": [X["name"]], "sections": {
                "impropers": [{"atoms": nm, "params": ["2", "0", "50"], "meta": {}}]}})
    if links and g.random() < 0.3:
        # a message of the force field attached to a link (logged when the link applies): info, warning or error level
        l = g.choice([x for x in links if not x.get("removal_link")] or links)
        level = g.choice(["info", "warning", "error", "error"])
        l["sections"][level] = [{"atoms": ["this link is part of a generated test force field"], "params": [], "meta": {}}]
    multires = None
    if g.random() < multires_p:
        # an existing multi-residue molecule used as building block (polyply .itp file; residue graph nodes of the
        # fragment carry the label from_itp): copies of 2-3 of the blocks above, chained by bonds
        comp = [g.randrange(len(blocks)) for _ in range(g.randint(2, 3))]
        multires = {"name": "MR", "comp": comp, "link_len": [str(round(g.uniform(0.3, 0.45), 3)) for _ in comp[1:]],
                    "split_first": False, "interleave": g.random() < 0.4}
    # file layout
    items = [["block", i] for i in range(len(blocks))] + [["link", i] for i in range(len(links))]
    nfiles = g.randint(1, 3)
    files = [[] for _ in range(nfiles)]
    for it in items:
        files[g.randrange(nfiles)].append(it)
    files = [f for f in files if f]
    # .itp blocks live in files of their own (other parser)
    itp_items = [it for f in files for it in f if it[0] == "block" and blocks[it[1]].get("itp")]
    files = [[it for it in f if it not in itp_items] for f in files]
    if len(itp_items) >= 2 and g.random() < 0.6:
        files = [f for f in files if f] + [itp_items]       # several moleculetypes with dangling indices in ONE .itp file
    else:
        files = [f for f in files if f] + [[it] for it in itp_items]
    if multires:
        files.append([["multires", 0]])
    return {"atypes": atypes, "blocks": blocks, "links": links, "files": files, "multires": multires,
            "same_names": g.random() < 0.2}     # all input files called defs.ff / defs.itp, each in its own directory


def render_multires(ff):
    mr = ff["multires"]
    head = ["[ moleculetype ]", f"{mr['name']} {ff['blocks'][0]['nrexcl']}", "[ atoms ]"]
    atoms = []          # (fields after the atom number, position inside its residue)
    bonds = []          # (i, j, params) with 1-based atom numbers in residue-by-residue order
    first_of = []
    last_of = []
    n = 0
    resid = 0
    for k, bi in enumerate(mr["comp"]):
        b = ff["blocks"][bi]
        resid += 1
        base = n
        for j, a in enumerate(b["atoms"]):
            n += 1
            rid, rname = resid, b["name"]
            if mr.get("split_first") and k == 0 and j == 0 and len(b["atoms"]) >= 2:
                rname = "RX"                      # variant: the first atom forms a residue of its own
            elif mr.get("split_first") and len(ff["blocks"][mr["comp"][0]]["atoms"]) >= 2:
                rid = resid + 1
            atoms.append(([a["atype"], rid, rname, a["name"]], [a["charge"], a["mass"]], j))
        first_of.append(base + 1)
        last_of.append(n)
        for it in b["inter"]["bonds"] + [dict(c, params=c["params"] + ["5000"]) for c in b["inter"]["constraints"]]:
            if it["meta"]:
                continue
            bonds.append((base + it["atoms"][0] + 1, base + it["atoms"][1] + 1, " ".join(it["params"][:3])))
    for k in range(len(mr["comp"]) - 1):
        bonds.append((last_of[k], first_of[k + 1], f"1 {mr['link_len'][k]} 3500"))
    order = list(range(len(atoms)))
    if mr.get("interleave"):
        # atoms listed by their position inside the residue (all first atoms, then all second atoms, ...): the atoms
        # of one residue are not consecutive in the file, as in itp files that list heavy atoms first, hydrogens last
        order.sort(key=lambda x: (atoms[x][2], x))
    new_no = {old + 1: new + 1 for new, old in enumerate(order)}
    out = list(head)
    for new, old in enumerate(order):
        f, tail, _j = atoms[old]
        out.append(f"{new + 1} {f[0]} {f[1]} {f[2]} {f[3]} {new + 1} {tail[0]} {tail[1]}")
    out.append("[ bonds ]")
    out += [f"{new_no[i]} {new_no[j]} {par}" for i, j, par in bonds]
    return "\n".join(out) + "\n"


def _meta_str(meta):
    return (" " + json.dumps(meta)) if meta else ""


def render_item(ff, item):
    kind, i = item
    out = []
    if kind == "multires":
        return render_multires(ff)
    if kind == "block":
        b = ff["blocks"][i]
        out += ["[ moleculetype ]", f"{b['name']} {b['nrexcl']}", "[ atoms ]"]
        for k, a in enumerate(b["atoms"]):
            if b.get("bare_atoms"):
                out.append(f"{k + 1} {a['atype']} 1 {b['name']} {a['name']} {a['cgnr']}")
            else:
                out.append(f"{k + 1} {a['atype']} 1 {b['name']} {a['name']} {a['cgnr']} {a['charge']} {a['mass']}")
        for sec in ("bonds", "constraints", "angles", "dihedrals", "position_restraints", "distance_restraints",
                    "angle_restraints_z"):
            its = list(b["inter"].get(sec, []))
            if b.get("itp"):
                its += b.get("dangling", {}).get(sec, [])
            if its:
                out.append(f"[ {sec} ]")
                if b.get("itp"):
                    # plain .itp syntax: conditional interactions between #ifdef/#ifndef ... #endif lines
                    for it in its:
                        line = " ".join(str(x + 1) for x in it["atoms"]) + " " + " ".join(it["params"])
                        if it["meta"]:
                            (cond, tag), = it["meta"].items()
                            out += [f"#{cond} {tag}", line, "#endif"]
                        else:
                            out.append(line)
                else:
                    for it in its:
                        out.append(" ".join(str(x + 1) for x in it["atoms"]) + " " + " ".join(it["params"]) + _meta_str(it["meta"]))
    else:
        l = ff["links"][i]
        out += ["[ link ]", 'resname "' + "|".join(l["resnames"]) + '"']
        for sec, its in l["sections"].items():
            out.append(f"[ {sec} ]")
            for it in its:
                out.append(" ".join(it["atoms"]) + " " + " ".join(it["params"]) + _meta_str(it["meta"]))
    return "\n".join(out) + "\n"


def render_files(ff, file_order=None, item_orders=None):
    """returns list of (filename, text) in the order they are passed with -f"""
    files = ff["files"]
    order = file_order if file_order is not None else list(range(len(files)))
    out = []
    for fi in order:
        items = files[fi]
        if item_orders and item_orders.get(str(fi)):
            items = [items[k] for k in item_orders[str(fi)]]
        is_itp = all((it[0] == "block" and ff["blocks"][it[1]].get("itp")) or it[0] == "multires" for it in items)
        ext = "itp" if is_itp else "ff"
        fname = f"d{fi}/defs.{ext}" if ff.get("same_names") else f"ff{fi}.{ext}"
        text = "\n".join(render_item(ff, it) for it in items)
        if ff.get("cites") and ext == "ff":
            # force-field wide citation keys (as at the top of the shipped library files); whether an entry for a key
            # is known depends on the .bib files read by THIS call only
            text = "[ citations ]\n" + "\n".join(ff["cites"]) + "\n\n" + text
        out.append((fname, text))
    return out


# ----------------------------------------------------------------------------- residue graphs
def gen_resgraph(g, ff, maxn=10):
    names = [b["name"] for b in ff["blocks"]]
    n = g.randint(1, maxn)
    shape = g.choice(["linear", "linear", "tree", "star", "ring"]) if n >= 3 else "linear"
    if shape == "linear":
        edges = [[k, k + 1] for k in range(n - 1)]
    elif shape == "tree":
        edges = [[g.randrange(k), k] for k in range(1, n)]
    elif shape == "star":
        edges = [[0, k] for k in range(1, n)]
    else:
        edges = [[k, k + 1] for k in range(n - 1)] + [[0, n - 1]]
    mode = g.random()
    if mode < 0.4:
        seq = [g.choice(names)] * n
    elif mode < 0.7 and n >= 2:
        cut = g.randint(1, n - 1)
        a, b = g.choice(names), g.choice(names)
        seq = [a] * cut + [b] * (n - cut)
    else:
        seq = [g.choice(names) for _ in range(n)]
    rg = {"shape": shape, "resnames": seq, "edges": edges}
    if g.random() < 0.2:
        rg["resid_start"] = g.choice([0, 2, 5, 11])          # contiguous residue ids starting elsewhere (.json only)
    mr = ff.get("multires")
    if mr and shape == "linear" and g.random() < 0.7:
        # a stretch of the chain is the multi-residue building block
        names_mr = [ff["blocks"][bi]["name"] for bi in mr["comp"]]
        k = len(names_mr)
        pos = g.randint(0, max(0, n - k))
        seq2 = seq[:pos] + names_mr + seq[pos + k:] if n >= k else list(names_mr)
        rg["resnames"] = seq2
        rg["edges"] = [[i, i + 1] for i in range(len(seq2) - 1)]
        rg["from_itp"] = {str(pos + i): mr["name"] for i in range(k)}
        rg.pop("resid_start", None)       # from_itp fragments with residue ids not starting at 1 crash in link
        #                                   application (C01 territory, noted in DESIGN): not generated
        if not mr.get("split_first") and g.random() < 0.3:
            # a second copy of the building block further down the chain (one ordinary residue in between)
            sep = g.choice(names)
            base_len = len(seq2)
            seq2 = seq2 + [sep] + names_mr
            rg["resnames"] = seq2
            rg["edges"] = [[i, i + 1] for i in range(len(seq2) - 1)]
            rg["from_itp"].update({str(base_len + 1 + i): mr["name"] for i in range(k)})
            rg["two_fragments"] = True
        if mr.get("split_first") and len(ff["blocks"][mr["comp"][0]]["atoms"]) >= 2:
            rg["resnames"] = seq2[:pos] + ["RX"] + seq2[pos:]
            rg["edges"] = [[i, i + 1] for i in range(len(rg["resnames"]) - 1)]
            rg["from_itp"] = {str(pos + i): mr["name"] for i in range(k + 1)}
    if any(l.get("tag_link") for l in ff["links"]):
        rg["tags"] = [g.choice(["R", "S"]) for _ in rg["resnames"]]       # only expressible in .json input
    return rg


def graph_json(rg, keys=None, node_order=None, edge_order=None, flip=None, resid_start=1):
    """node-link JSON.  keys: node index -> key; node_order/edge_order: permutations;
    flip: set of edge indices whose endpoints are swapped."""
    n = len(rg["resnames"])
    keys = keys or list(range(n))
    node_order = node_order or list(range(n))
    edge_order = edge_order or list(range(len(rg["edges"])))
    flip = set(flip or [])
    resid_start = rg.get("resid_start", resid_start)
    nodes = [{"id": keys[i], "resname": rg["resnames"][i], "resid": i + resid_start} for i in node_order]
    if rg.get("from_itp"):
        for nd, i in zip(nodes, node_order):
            if str(i) in rg["from_itp"]:
                nd["from_itp"] = rg["from_itp"][str(i)]
    if rg.get("tags"):
        for nd, i in zip(nodes, node_order):
            nd["tag"] = rg["tags"][i]
    edges = []
    for ei in edge_order:
        a, b = rg["edges"][ei]
        if ei in flip:
            a, b = b, a
        edge = {"source": keys[a], "target": keys[b]}
        if rg.get("edge_attrs"):
            edge.update(rg["edge_attrs"][ei])
        edges.append(edge)
    return json.dumps({"directed": False, "multigraph": False, "graph": {}, "nodes": nodes, "edges": edges}, indent=1)


def seq_list(rg):
    """-seq form of a linear residue graph"""
    out = []
    for r in rg["resnames"]:
        if out and out[-1][0] == r:
            out[-1][1] += 1
        else:
            out.append([r, 1])
    return [f"{r}:{c}" for r, c in out]


def gen_ff_linktype(g):
    """one block; two links that look the same at the residue level and differ only in the linktype of their edge
    (and in the atoms they bond); residue graph edges carry one of the two linktypes"""
    atypes = ["P0", "P1"]
    b = gen_block(g, 0, atypes)
    while len(b["atoms"]) < 3:
        b = gen_block(g, 0, atypes)
    b["itp"] = False
    names = [b["name"]]
    a0, a1, al = b["atoms"][0]["name"], b["atoms"][1]["name"], b["atoms"][-1]["name"]
    lt0 = g.choice(["a16", "circle"])         # 'circle' is the tag the shipped DNA libraries use for ring closures
    links = [
        {"resnames": names, "sections": {"bonds": [{"atoms": [al, ">" + a0], "params": ["1", "0.37", "6500"], "meta": {}}],
                                         "edges": [{"atoms": [al, ">" + a0], "params": [], "meta": {"linktype": lt0}}]}},
        {"resnames": names, "sections": {"bonds": [{"atoms": [a1, ">" + a0], "params": ["1", "0.32", "5500"], "meta": {}}],
                                         "edges": [{"atoms": [a1, ">" + a0], "params": [], "meta": {"linktype": "a13"}}]}},
    ]
    files = [[["block", 0]], [["link", 0]], [["link", 1]]] if g.random() < 0.5 else [[["block", 0], ["link", 0], ["link", 1]]]
    ff = {"atypes": atypes, "blocks": [b], "links": links, "files": files}
    n = g.randint(3, 8)
    edges = [[g.randrange(k), k] for k in range(1, n)] if g.random() < 0.6 else [[k, k + 1] for k in range(n - 1)]
    rg = {"shape": "tree", "resnames": [b["name"]] * n, "edges": edges,
          "edge_attrs": [{"linktype": g.choice([lt0, "a13"])} for _ in edges]}
    return ff, rg

"""Workload generator for world A: GROMACS topologies + gen_coords option sets.

A *spec* is a JSON-able dict; `render(spec)` produces the input files and the ground
truth (expanded atom list) that the C03 oracle compares the output with.
"""
import math

# ----------------------------------------------------------------------------- residues
ATOM_LETTERS = "ABCDEFGHJK"


def _resname(i):
    return "R" + "ABCDEFGH"[i]


def gen_restype(g, name, atypes, idx, allow_vs=True, allow_angles=True, max_atoms=4, shape=None, impossible_p=0.0,
                vs_p=0.25, improper_p=0.0, strained_p=0.0, conflict_p=0.0, local_strain_p=0.0):
    """One residue type: 1..max_atoms uniquely named atoms joined by bonds/constraints
    (tree or ring), optional angles, optional virtual site."""
    n = g.randint(1, max_atoms)
    prefix = ATOM_LETTERS[idx % len(ATOM_LETTERS)]
    if local_strain_p and g.random() < local_strain_p:
        # a chain of 8-10 beads with one contradiction at its start: a 1-3 bond longer than the two bonds it spans can
        # reach.  The optimum leaves those three bonds ~0.06 nm off while all other bonds are exact.
        n = g.randint(8, 10)
        b = 0.30
        atoms = [{"name": f"{prefix}{k + 1}", "atype": g.choice(atypes)} for k in range(n)]
        bonds = [[k, k + 1, b, 5000] for k in range(n - 1)] + [[0, 2, round(2 * b + g.uniform(0.16, 0.2), 3), 5000]]
        return {"vs3_before_vs2": False, "vs_zero_mass": False, "name": name, "atoms": atoms, "bonds": bonds,
                "constraints": [], "angles": [], "angle_functs": [], "vsites": [], "blen": b, "impossible": False,
                "impropers": [], "strained": True, "conflict": False, "propers": [], "local_strain": True}
    atoms = [{"name": f"{prefix}{k + 1}", "atype": g.choice(atypes)} for k in range(n)]
    bonds = []
    constraints = []
    shape = shape or g.choice(["chain", "chain", "tree", "ring"])
    pairs = []
    if n >= 2:
        if shape == "chain" or n == 2:
            pairs = [(k, k + 1) for k in range(n - 1)]
        elif shape == "tree":
            pairs = [(g.randrange(k), k) for k in range(1, n)]
        else:  # ring
            pairs = [(k, k + 1) for k in range(n - 1)]
            if n >= 3:
                pairs.append((0, n - 1))
    blen = round(g.uniform(0.25, 0.45), 3)
    impossible = shape == "ring" and n == 3 and g.random() < impossible_p
    for (a, b) in pairs:
        if impossible:
            # bond lengths that violate the triangle inequality: optimisation can never succeed
            bonds.append([a, b, 1.0 if (a, b) == (0, n - 1) else 0.2, 5000])
            continue
        if g.random() < 0.2:
            constraints.append([a, b, blen])
        else:
            bonds.append([a, b, blen, 5000])
    angles = []
    if allow_angles and shape != "ring" and n >= 3 and g.random() < 0.5:
        # angles along bonded triples a-b-c
        adj = {k: set() for k in range(n)}
        for a, b in pairs:
            adj[a].add(b)
            adj[b].add(a)
        for b in range(n):
            nb = sorted(adj[b])
            if len(nb) >= 2:
                angles.append([nb[0], b, nb[1], g.choice([100, 120, 140, 180]), 50])
                break
    # function types whose first parameter is the reference angle: harmonic, G96, Urey-Bradley, restricted bending
    angle_functs = [g.choice([1, 1, 1, 2, 5, 10]) if th != 180 else 1 for (_a, _b, _c, th, _k) in angles]
    impropers = []
    propers = []
    if n == 4 and shape != "ring" and not impossible and g.random() < improper_p:
        # harmonic improper (GROMACS type 2) with a non-planar reference: fixes the handedness of the centre
        if shape == "chain":
            quad = [0, 1, 2, 3]
        else:
            quad = [0, 1, 2, 3]
        impropers.append([quad[0], quad[1], quad[2], quad[3], g.choice([35.26, -35.26, 20.0, -25.0]), 300])
        if g.random() < 0.4:
            # GROMOS/ATB style: a proper dihedral on the same four atoms listed right after the improper
            propers.append([quad[0], quad[1], quad[2], quad[3], g.choice([1, 9]), g.choice([0.0, 180.0]), 1.8, g.choice([1, 2, 3])])
    conflict = False
    if conflict_p and n == 4 and not impossible and g.random() < conflict_p:
        # a centre bound to three atoms with planar 120 degree angles AND a strongly pyramidal improper: the stage
        # without dihedrals converges, the stage with the improper cannot meet all targets (decided only when the
        # guard is drawn last, so other profiles consume the same stream)
        b = round(g.uniform(0.14, 0.3), 3)
        bonds[:] = [[0, 1, b, 100000], [0, 2, b, 100000], [0, 3, b, 100000]]
        constraints[:] = []
        angles[:] = [[1, 0, 2, 120, 500], [1, 0, 3, 120, 500], [2, 0, 3, 120, 500]]
        angle_functs[:] = [1, 1, 1]
        impropers[:] = [[0, 1, 2, 3, g.choice([60.0, -60.0, 55.0]), 200]]
        propers[:] = []
        shape = "tree"
        conflict = True
    strained = False
    if n == 4 and shape == "ring" and not impossible and g.random() < strained_p:
        # four bonds of length b around the ring and a diagonal constraint slightly longer than 2b: the optimum leaves
        # the bonds ~delta/4 and the constraint ~delta/2 off, i.e. the constraint alone outside the 0.05 nm tolerance
        b = 0.30
        delta = round(g.uniform(0.13, 0.19), 3)
        bonds[:] = [[0, 1, b, 5000], [1, 2, b, 5000], [2, 3, b, 5000], [0, 3, b, 5000]]
        constraints[:] = [[0, 2, round(2 * b + delta, 3)]]
        strained = True
    vsites = []
    if allow_vs and n == 1 and g.random() < 0.5 * vs_p:
        # a bead with a virtual site constructed on top of it (Go-Martini style): no bonded term inside the residue,
        # all particles on one point
        vsites.append({"kind": "n", "funct": 1, "from": [0], "params": []})
        atoms.append({"name": f"{prefix}V", "atype": g.choice(atypes)})
    elif allow_vs and n >= 2 and g.random() < (0.9 if impossible else vs_p):
        kind = g.choice(["n1", "n1", "2"] + (["3", "3fd", "3fad", "3out", "nested"] if n >= 3 else []) +
                        (["4fdn"] if n >= 4 else []))
        site = {"name": f"{prefix}V", "atype": g.choice(atypes)}
        if kind == "nested":
            # a virtual_sites3 site constructed from a virtual_sites2 site; [ virtual_sites3 ] is listed BEFORE
            # [ virtual_sites2 ] in the itp (GROMACS does not care about the order of the directives)
            vsites.append({"kind": "2", "funct": 1, "from": [0, 1], "params": [round(g.uniform(0.3, 0.7), 3)]})
            vsites.append({"kind": "3", "funct": 1, "from": [n, 1, 2],
                           "params": [round(g.uniform(0.2, 0.5), 3), round(g.uniform(0.2, 0.5), 3)]})
            atoms.append({"name": f"{prefix}W", "atype": g.choice(atypes)})
        elif kind == "n1":
            k = g.randint(2, min(3, n))
            funct = 1
            if g.random() < 0.3:
                # centre-of-mass site (funct 2) over atoms of ONE type: centre of mass == centre of geometry
                funct = 2
                for i in range(1, k):
                    atoms[i]["atype"] = atoms[0]["atype"]
            vsites.append({"kind": "n", "funct": funct, "from": list(range(k)), "params": []})
        elif kind == "2":
            vsites.append({"kind": "2", "funct": 1, "from": [0, 1], "params": [round(g.uniform(0.2, 0.8), 3)]})
        elif kind == "3":
            vsites.append({"kind": "3", "funct": 1, "from": [0, 1, 2],
                           "params": [round(g.uniform(0.1, 0.4), 3), round(g.uniform(0.1, 0.4), 3)]})
        elif kind == "3fd":
            vsites.append({"kind": "3", "funct": 2, "from": [0, 1, 2],
                           "params": [round(g.uniform(0.2, 0.8), 3), round(g.uniform(0.05, 0.2), 3)]})
        elif kind == "3fad":
            vsites.append({"kind": "3", "funct": 3, "from": [0, 1, 2],
                           "params": [g.choice([-110.0, 250.0, 200.0]) if g.random() < 0.3 else round(g.uniform(60, 140), 1),
                                      round(g.uniform(0.05, 0.2), 3)]})     # (angles outside [0, 180]: site on the other side)
        elif kind == "3out":
            vsites.append({"kind": "3", "funct": 4, "from": [0, 1, 2],
                           "params": [round(g.uniform(0.1, 0.4), 3), round(g.uniform(0.1, 0.4), 3),
                                      round(g.uniform(-3.0, 3.0), 2)]})
        else:
            vsites.append({"kind": "4", "funct": 2, "from": [0, 1, 2, 3],
                           "params": [round(g.uniform(0.3, 1.0), 3), round(g.uniform(0.3, 1.0), 3),
                                      round(g.uniform(0.05, 0.2), 3)]})
        atoms.append(site)
    if len(vsites) == 2:
        # the appended order is [W (for the vs2), V (for the vs3)]: vsites[0] <-> atom n, vsites[1] <-> atom n+1
        pass
    return {"vs3_before_vs2": len(vsites) == 2, "vs_zero_mass": bool(vsites) and g.random() < 0.5, "name": name, "atoms": atoms, "bonds": bonds, "constraints": constraints,
            "angles": angles, "angle_functs": angle_functs, "vsites": vsites, "blen": blen, "impossible": impossible, "impropers": impropers,
            "strained": strained, "conflict": conflict, "propers": propers}


# ----------------------------------------------------------------------------- molecule types
def gen_resgraph(g, shape, n):
    """edges of a residue graph over nodes 0..n-1 (connected)."""
    if n == 1:
        return []
    if shape == "linear":
        return [[k, k + 1] for k in range(n - 1)]
    if shape == "ring":
        return [[k, k + 1] for k in range(n - 1)] + ([[0, n - 1]] if n >= 3 else [])
    if shape == "star":
        return [[0, k] for k in range(1, n)]
    if shape == "comb":
        edges = []
        back = max(2, (n + 1) // 2)
        for k in range(back - 1):
            edges.append([k, k + 1])
        for j in range(back, n):
            edges.append([g.randrange(back), j])
        return edges
    # random tree
    return [[g.randrange(k), k] for k in range(1, n)]


def gen_moltype(g, name, restypes, shape=None, nres=None, maxres=10):
    shape = shape or g.choice(["single", "linear", "linear", "linear", "star", "comb", "tree", "ring"])
    if shape == "single":
        nres = 1
    elif nres is None:
        lo = 3 if shape in ("ring", "star", "comb") else 2
        nres = g.randint(lo, min(maxres, 6) if shape == "star" else maxres)
    names = sorted(restypes)
    mode = g.random()
    if mode < 0.4:
        seq = [g.choice(names)] * nres
    elif mode < 0.7 and nres >= 2:
        cut = g.randint(1, nres - 1)
        a, b = g.choice(names), g.choice(names)
        seq = [a] * cut + [b] * (nres - cut)
    else:
        seq = [g.choice(names) for _ in range(nres)]
    edges = gen_resgraph(g, "linear" if shape == "single" else shape, nres)
    # (nrexcl is an atom-level setting of the topology; GROMOS/OPLS style files use 3)
    return {"name": name, "shape": shape, "residues": seq, "edges": edges, "nrexcl": g.choice([1, 1, 2, 3])}


# ----------------------------------------------------------------------------- rendering
def file_resid(mt, r):
    """residue number written for residue index r (0-based) of the molecule type"""
    k = mt.get("resid_restart")
    return r + 1 if (k is None or r < k) else r - k + 1


def expand_moltype(mt, restypes):
    """atom table + interaction lines of one moleculetype.
    Returns (atoms, sections) with atoms = [(id, atype, resid, resname, atomname)]"""
    atoms = []
    first_atom = {}
    res_atom_ids = {}
    restypes = dict(restypes, **mt.get("restype_override", {}))
    per_res = mt.get("residue_override", {})

    def rtype(r, rname):
        return per_res.get(str(r)) or restypes[rname]

    order = mt.get("list_order") or list(range(len(mt["residues"])))
    for r in order:
        rname = mt["residues"][r]
        rt = rtype(r, rname)
        ids = []
        for a in rt["atoms"]:
            aid = len(atoms) + 1
            atoms.append((aid, a["atype"], file_resid(mt, r), rname, a["name"]))
            ids.append(aid)
        res_atom_ids[r] = ids
    sec = {"dihedrals": [], "bonds": [], "constraints": [], "angles": [], "virtual_sitesn": [],
           "virtual_sites2": [], "virtual_sites3": [], "virtual_sites4": []}
    for r, rname in enumerate(mt["residues"]):
        rt = rtype(r, rname)
        ids = res_atom_ids[r]
        for a, b, l, k in rt["bonds"]:
            sec["bonds"].append(f"{ids[a]} {ids[b]} 1 {l} {k}")
        for a, b, l in rt["constraints"]:
            sec["constraints"].append(f"{ids[a]} {ids[b]} 1 {l}")
        functs = rt.get("angle_functs") or []
        for i, (a, b, c, th, k) in enumerate(rt["angles"]):
            f = functs[i] if len(functs) == len(rt["angles"]) else 1
            extra = " 0.0 0.0" if f == 5 else ""
            sec["angles"].append(f"{ids[a]} {ids[b]} {ids[c]} {f} {th} {k}{extra}")
        for a, b, c, d, q0, k in rt.get("impropers", []):
            sec["dihedrals"].append(f"{ids[a]} {ids[b]} {ids[c]} {ids[d]} 2 {q0} {k}")
        for a, b, c, d, f, phi, k, mult in rt.get("propers", []):
            sec["dihedrals"].append(f"{ids[a]} {ids[b]} {ids[c]} {ids[d]} {f} {phi} {k} {mult}")
        nreal = len(rt["atoms"]) - len(rt["vsites"])
        for v, vs in enumerate(rt["vsites"]):
            site = ids[nreal + v]
            frm = " ".join(str(ids[x]) for x in vs["from"])
            par = " ".join(str(p) for p in vs["params"])
            if vs["kind"] == "n":
                sec["virtual_sitesn"].append(f"{site} {vs['funct']} {frm}")
            elif vs["kind"] == "2":
                sec["virtual_sites2"].append(f"{site} {frm} {vs['funct']} {par}")
            elif vs["kind"] == "3":
                sec["virtual_sites3"].append(f"{site} {frm} {vs['funct']} {par}")
            else:
                sec["virtual_sites4"].append(f"{site} {frm} {vs['funct']} {par}")
    for (ra, rb) in mt["edges"]:
        # link: last real atom of the lower residue - first atom of the higher residue
        ra, rb = sorted((ra, rb))
        rta = rtype(ra, mt["residues"][ra])
        nreal_a = len(rta["atoms"]) - len(rta["vsites"])
        a = res_atom_ids[ra][nreal_a - 1]
        b = res_atom_ids[rb][0]
        sec["bonds"].append(f"{a} {b} 1 {mt.get('link_len', 0.35)} 5000")
        if mt.get("double_links"):
            # ladder-like: a second bond between the same two residues (first real atom of the lower residue - last
            # atom of the higher one), unless that is the same atom pair
            a2 = res_atom_ids[ra][0]
            rtb = rtype(rb, mt["residues"][rb])
            b2 = res_atom_ids[rb][len(rtb["atoms"]) - len(rtb["vsites"]) - 1]
            if (a2, b2) != (a, b):
                sec["bonds"].append(f"{a2} {b2} 1 {round(mt.get('link_len', 0.35) + 0.1, 3)} 1000")
    return atoms, sec


def zero_mass_names(mt, restypes):
    """(resname, atomname) of virtual sites that carry an explicit mass of 0 (GROMACS convention)"""
    out = set()
    rts = dict(restypes, **mt.get("restype_override", {}))
    for rname in set(mt["residues"]):
        rt = rts[rname]
        if rt.get("vs_zero_mass"):
            nreal = len(rt["atoms"]) - len(rt["vsites"])
            for a in rt["atoms"][nreal:]:
                out.add((rname, a["name"]))
    return out


def render_itp(mt, restypes, atype_mass, with_mass=True):
    atoms, sec = expand_moltype(mt, restypes)
    out = ["[ moleculetype ]", f"{mt['name']} {mt['nrexcl']}", "[ atoms ]"]
    zero = zero_mass_names(mt, restypes)
    for aid, atype, resid, resname, aname in atoms:
        line = f"{aid} {atype} {resid} {resname} {aname} {aid} 0.0"
        if with_mass:
            line += f" {0.0 if (resname, aname) in zero else atype_mass[atype]}"
        out.append(line)
    names = ["bonds", "constraints", "angles", "dihedrals", "virtual_sitesn", "virtual_sites2", "virtual_sites3",
             "virtual_sites4"]
    rts = dict(restypes, **mt.get("restype_override", {}))
    if any(rts[r].get("vs3_before_vs2") for r in set(mt["residues"])):
        names = ["bonds", "constraints", "angles", "dihedrals", "virtual_sitesn", "virtual_sites3", "virtual_sites2",
                 "virtual_sites4"]
    shuffle = mt.get("section_shuffle")
    for name in names:
        if sec[name]:
            out.append(f"[ {name} ]")
            lines = list(sec[name])
            if shuffle is not None:
                # GROMACS does not care about the order of the lines inside a directive: entries of later residues
                # (and the bonds between residues) may precede those of the first residue
                import random as _random
                _random.Random(f"{shuffle}:{name}").shuffle(lines)
            out.extend(lines)
    return "\n".join(out) + "\n"


def render_top(spec):
    comb = spec["comb"]
    out = ["[ defaults ]", f"1 {comb} no 1.0 1.0", "[ atomtypes ]"]
    for at in spec["atypes"]:
        if comb == 1:
            c6 = 4 * at["eps"] * at["sigma"] ** 6
            c12 = 4 * at["eps"] * at["sigma"] ** 12
            out.append(f"{at['name']} {at['mass']} 0.0 A {c6:.10e} {c12:.10e}")
        else:
            out.append(f"{at['name']} {at['mass']} 0.0 A {at['sigma']} {at['eps']}")
    mass = {a["name"]: a["mass"] for a in spec["atypes"]}
    files = {}
    for mt in spec["moltypes"]:
        if spec.get("split_files") and (mt is not spec["moltypes"][0] or spec.get("split_all")):
            fname = f"{mt['name']}.itp"
            files[fname] = render_itp(mt, spec["restypes"], mass, spec.get("with_mass", True))
            ci = spec.get("cond_include")
            if ci and mt is spec["moltypes"][-1] and len(spec["moltypes"]) >= 2:
                # the include sits in a top-level #ifdef/#ifndef ... #else ... #endif; the de-selected branch includes
                # another description of the same moleculetype name
                alt_name = f"{mt['name']}_alt.itp"
                files[alt_name] = render_itp(ci["alt"], spec["restypes"], mass, spec.get("with_mass", True))
                first_active = (ci["kind"] == "ifdef") == bool(ci["defined"])
                if ci["defined"]:
                    out.append(f"#define {ci['flag']}")
                out.append(f"#{ci['kind']} {ci['flag']}")
                out.append(f'#include "{fname if first_active else alt_name}"')
                if ci.get("with_else", True):
                    out.append("#else")
                    out.append(f'#include "{alt_name if first_active else fname}"')
                out.append("#endif")
            else:
                out.append(f'#include "{fname}"')
        else:
            out.append(render_itp(mt, spec["restypes"], mass, spec.get("with_mass", True)).rstrip("\n"))
    out += ["[ system ]", "verif", "[ molecules ]"]
    for name, cnt in spec["molecules"]:
        out.append(f"{name} {cnt}")
    files["system.top"] = "\n".join(out) + "\n"
    return files


def ground_truth(spec):
    """expanded [molecules] list: per instance (molname, [(resid, resname, atomname, atype)])"""
    mts = {m["name"]: m for m in spec["moltypes"]}
    inst = []
    for name, cnt in spec["molecules"]:
        atoms, _ = expand_moltype(mts[name], spec["restypes"])
        for _ in range(cnt):
            inst.append((name, [(resid, resname, aname, atype) for _, atype, resid, resname, aname in atoms]))
    return inst


def total_mass(spec):
    mass = {a["name"]: a["mass"] for a in spec["atypes"]}
    mts = {m["name"]: m for m in spec["moltypes"]}
    total = 0.0
    for molname, atoms in ground_truth(spec):
        zero = zero_mass_names(mts[molname], spec["restypes"]) if spec.get("with_mass", True) else set()
        for (resid, resname, aname, atype) in atoms:
            total += 0.0 if (resname, aname) in zero else mass[atype]
    return total


# ----------------------------------------------------------------------------- system spec
def gen_system(g, profile):
    """profile: dict of knobs (see checks/*).  Returns spec."""
    comb = g.choice(profile.get("comb", [1, 2, 3]))
    nat = g.randint(1, 3)
    atypes = [{"name": f"P{i}", "mass": g.choice([36.0, 45.0, 72.0]),
               "sigma": round(g.uniform(*profile.get("sigma", (0.3, 0.55))), 3),
               "eps": round(g.uniform(1.0, 4.0), 2)} for i in range(nat)]
    anames = [a["name"] for a in atypes]
    nrt = g.randint(*profile.get("n_restypes", (1, 3)))
    restypes = {}
    for i in range(nrt):
        rn = _resname(i)
        restypes[rn] = gen_restype(g, rn, anames, i, allow_vs=profile.get("vsites", True),
                                   allow_angles=profile.get("angles", True),
                                   max_atoms=profile.get("max_atoms", 4),
                                   shape=g.choice(profile["res_shapes"]) if profile.get("res_shapes") else None,
                                   impossible_p=profile.get("impossible_p", 0.0), vs_p=profile.get("vs_p", 0.25),
                                   improper_p=profile.get("improper_p", 0.0), strained_p=profile.get("strained_p", 0.0),
                                   conflict_p=profile.get("conflict_p", 0.0),
                                   local_strain_p=profile.get("local_strain_p", 0.0))
    if g.random() < profile.get("sol_p", 0.0):
        # the GROMACS default water residue name (some coordinate readers drop it by default)
        last = sorted(restypes)[-1]
        restypes["SOL"] = restypes.pop(last)
        restypes["SOL"]["name"] = "SOL"
    nmt = g.randint(*profile.get("n_moltypes", (1, 3)))
    moltypes = []
    shapes = profile.get("shapes")
    for i in range(nmt):
        moltypes.append(gen_moltype(g, "M" + "ABCDEF"[i], restypes,
                                    shape=g.choice(shapes) if shapes else None,
                                    maxres=profile.get("maxres", 10)))
    nentries = g.randint(*profile.get("n_entries", (1, 4)))
    molecules = []
    total = 0
    maxmol = profile.get("max_molecules", 12)
    for _ in range(nentries):
        mt = g.choice(moltypes)
        cnt = g.randint(1, profile.get("max_count", 4))
        cnt = min(cnt, maxmol - total)
        if cnt <= 0:
            break
        molecules.append([mt["name"], cnt])
        total += cnt
    used = {m for m, _ in molecules}
    spec = {"comb": comb, "atypes": atypes, "restypes": restypes,
            "moltypes": [m for m in moltypes if m["name"] in used] if g.random() < 0.7 else moltypes,
            "molecules": molecules, "split_files": g.random() < 0.3, "with_mass": g.random() < 0.7}
    return spec


def n_residues(spec):
    mts = {m["name"]: m for m in spec["moltypes"]}
    return sum(len(mts[n]["residues"]) * c for n, c in spec["molecules"])


def est_size(rt):
    """rough residue size estimate (nm) used only to choose a box: sigma + bond extent"""
    n = len(rt["atoms"])
    return 0.45 + 0.12 * (n - 1)


def choose_box(g, spec, profile):
    """Box / density choice.  Returns dict of gen_coords options (box or density)."""
    nres = n_residues(spec)
    size = max(est_size(rt) for rt in spec["restypes"].values())
    step = size
    mode = g.choice(profile.get("box_modes", ["cubic", "cubic", "noncubic", "density", "dense"]))
    # dilute: volume per residue ~ (3*size)^3
    if mode == "density":
        vol = nres * (g.uniform(1.8, 3.0) * size) ** 3
        vol = max(vol, (2.6 * step) ** 3 * 1.3)
        dens = total_mass(spec) * 1.6605410 / vol
        return {"density": round(dens, 4)}
    if mode == "dense":
        edge = max(2.6 * step, (nres * (g.uniform(1.15, 1.5) * size) ** 3) ** (1 / 3))
        return {"box": [round(edge, 3)] * 3}
    if mode == "tiny":
        edge = g.uniform(1.2, 2.0) * step + 0.3
        edge = max(edge, (nres * (1.3 * size) ** 3) ** (1 / 3))
        return {"box": [round(edge, 3)] * 3}
    edge = max(2.6 * step, (nres * (g.uniform(1.8, 3.0) * size) ** 3) ** (1 / 3))
    if mode == "cubic":
        return {"box": [round(edge, 3)] * 3}
    return {"box": [round(edge * g.uniform(1.0, 1.6), 3) for _ in range(3)]}

"""Build-file generator (C07 / C15 workloads).  The structured form is kept in the job
(`build_spec`) and is what the oracle reads; `render` gives the text polyply parses."""
import math
from gen import topgen


def instances(spec):
    out = []
    mts = {m["name"]: m for m in spec["moltypes"]}
    for name, cnt in spec["molecules"]:
        for _ in range(cnt):
            out.append(mts[name])
    return out


def gen_build_spec(g, spec, box, kinds, est_size=0.6):
    """kinds: subset of geom, rw, dist, pers.  Returns list of [molecule] blocks."""
    inst = instances(spec)
    blocks = []
    names = sorted({m["name"] for m in inst})
    g.shuffle(names)
    for name in (names if kinds == ["dist"] else names[: g.randint(1, len(names))]):
        idxs = [i for i, m in enumerate(inst) if m["name"] == name]
        mt = inst[idxs[0]]
        nres = len(mt["residues"])
        lo = g.choice(idxs)
        hi = g.choice([i for i in idxs if i >= lo]) + 1
        if g.random() < 0.5:
            lo, hi = idxs[0], idxs[-1] + 1
        contiguous = all(inst[i]["name"] == name for i in range(lo, hi))
        items = []
        resnames = sorted(set(mt["residues"]))
        usable = [k for k in kinds if k != "dist" or (mt["shape"] == "linear" and nres >= 4)]
        usable = [k for k in usable if k != "pers" or (mt["shape"] == "linear" and nres >= 5)]
        if not contiguous:
            # distance-type directives are applied by polyply to every index of the range whatever the molecule's
            # name (a C18 matter, not claimed here): only ranges that hold this molecule type alone are generated
            if any(k in usable for k in ("dist", "pers")):
                run = [lo]
                while run[-1] + 1 < len(inst) and inst[run[-1] + 1]["name"] == name:
                    run.append(run[-1] + 1)
                lo, hi = run[0], run[-1] + 1
        if not usable:
            continue
        chosen = set(g.sample(usable, g.randint(1, min(2, len(usable)))))
        if "pers" in chosen:
            chosen.discard("dist")
        contour = nres * est_size
        if "geom" in chosen:
            for _ in range(g.randint(1, 2)):
                kind = g.choice(["sphere", "cylinder", "rectangle"])
                inout = g.choice(["in", "out"])
                rn = g.choice(resnames)
                start = g.randint(1, nres)
                stop = g.randint(start + 1, nres + 1)
                if g.random() < 0.5:
                    start, stop = 1, nres + 1
                c = [round(box[d] * g.uniform(0.4, 0.6), 3) for d in range(3)]
                mb = min(box)
                if inout == "in":
                    r = round(max(0.42 * mb, min(0.5 * mb, 0.6 * contour + 0.8)), 3)
                    if kind == "sphere":
                        par = [r]
                    elif kind == "cylinder":
                        par = [r, round(0.45 * box[2], 3)]
                    else:
                        par = [round(0.45 * box[d], 3) for d in range(3)]
                else:
                    r = round(g.uniform(0.3, 0.22 * mb), 3)
                    if kind == "sphere":
                        par = [r]
                    elif kind == "cylinder":
                        par = [r, round(g.uniform(0.3, 0.2 * box[2]), 3)]
                    else:
                        par = [round(g.uniform(0.3, 0.2 * box[d]), 3) for d in range(3)]
                items.append({"kind": kind, "resname": rn, "start": start, "stop": stop, "inout": inout,
                              "center": c, "params": par})
        if "rw" in chosen:
            rn = g.choice(resnames)
            start = g.randint(1, nres)
            stop = g.randint(start + 1, nres + 1)
            if g.random() < 0.4:
                start, stop = 1, nres + 1
            axis = g.randrange(3)
            normal = [0.0, 0.0, 0.0]
            normal[axis] = g.choice([1.0, -1.0])
            if g.random() < 0.3:
                normal = [round(g.uniform(-1, 1), 2) for _ in range(3)]
                if sum(abs(x) for x in normal) < 0.3:
                    normal[0] = 1.0
            ang = g.choice([30.0, 45.0, 60.0, 75.0, 90.0, -120.0, -150.0])
            items.append({"kind": "rw", "resname": rn, "start": start, "stop": stop, "normal": normal, "angle": ang})
        if "dist" in chosen:
            a = g.randint(0, nres - 4)
            b = g.randint(a + 3, nres - 1)
            span = (b - a) * est_size
            tol = round(g.uniform(0.1, 0.35), 3)
            # mostly below half the box edge; sometimes beyond it (reachable only along a box diagonal: the pair is
            # then nearer through a box face than inside the cell for many placements)
            cap = 0.45 if g.random() < 0.65 else 0.62
            dmax = min(0.6 * span, cap * min(box) - tol)
            d = round(g.uniform(min(max(0.3, 0.2 * span), dmax), dmax), 3)
            # the pair may be listed with the residue that is grown later first
            items.append({"kind": "dist", "a": a, "b": b, "d": d, "tol": tol, "reversed": g.random() < 0.3})
            if b + 2 <= nres - 1 and g.random() < 0.6:
                # a second, longer restraint from the same reference residue (listed after the shorter one)
                b2 = g.randint(b + 2, nres - 1)
                span2 = (b2 - a) * est_size
                d2 = round(min(0.6 * span2, d + g.uniform(0.3, 0.8) * (b2 - b) * est_size, 0.45 * min(box) - tol), 3)
                items.append({"kind": "dist", "a": a, "b": b2, "d": d2, "tol": tol})
        if "pers" in chosen:
            # (a third of the chains are very flexible: the sampled end-to-end distances then reach down to the lower end
            # of the allowed range)
            lp = round(g.uniform(0.8, 4.0), 2) if g.random() < 0.65 else round(g.uniform(0.15, 0.4), 2)
            items.append({"kind": "pers", "model": "WCM", "lp": lp, "start": 0, "stop": nres - 1})
        if items:
            geo = [it for it in items if it["kind"] in ("sphere", "cylinder", "rectangle")]
            if geo and g.random() < 0.3:
                # the same molecule indices named by two [ molecule ] blocks: a general block with (part of) the
                # geometry first, then a block for all or the first of those molecules with the remaining directives
                # (possibly none).  Geometric restraints of several blocks add up in polyply.
                k = g.randint(1, len(geo))
                first = geo[:k]
                rest = [it for it in items if not any(it is f for f in first)]
                blocks.append({"mol": name, "from": lo, "to": hi, "items": first})
                sub_hi = hi if (g.random() < 0.5 or any(it["kind"] in ("dist", "pers") for it in rest)) else lo + 1
                blocks.append({"mol": name, "from": lo, "to": sub_hi, "items": rest})
            else:
                blocks.append({"mol": name, "from": lo, "to": hi, "items": items})
    return blocks


def render(blocks, templates=None, volumes=None, bending=None):
    out = []
    if bending:
        out.append("[ bending ]")
        for (a, b, c, k) in bending:
            out.append(f"{a} {b} {c} {k}")
    for tname, t in (templates or {}).items():
        out += ["[ template ]", f"resname {tname}", "[ atoms ]"]
        for an, (atype, xyz) in t["atoms"].items():
            out.append(f"{an} {atype} {xyz[0]} {xyz[1]} {xyz[2]}")
        out.append("[ bonds ]")
        for a, b in t["bonds"]:
            out.append(f"{a} {b}")
    if volumes:
        out.append("[ volumes ]")
        for k, v in volumes.items():
            out.append(f"{k} {v}")
    for b in blocks or []:
        out += ["[ molecule ]", f"{b['mol']} {b['from']} {b['to']}"]
        for it in b["items"]:
            k = it["kind"]
            if k in ("sphere", "cylinder", "rectangle"):
                out.append(f"[ {k} ]")
                out.append(f"{it['resname']} {it['start']} {it['stop']} {it['inout']} "
                           + " ".join(str(x) for x in it["center"]) + " " + " ".join(str(x) for x in it["params"]))
            elif k == "rw":
                out.append("[ rw_restriction ]")
                out.append(f"{it['resname']} {it['start']} {it['stop']} " + " ".join(str(x) for x in it["normal"])
                           + f" {it['angle']}")
            elif k == "dist":
                out.append("[ distance_restraints ]")
                if it.get("reversed"):
                    out.append(f"{it['b']} {it['a']} {it['d']} {it['tol']}")
                else:
                    out.append(f"{it['a']} {it['b']} {it['d']} {it['tol']}")
            elif k == "pers":
                out.append("[ persistence_length ]")
                out.append(f"{it['model']} {it['lp']} {it['start']} {it['stop']}")
    return "\n".join(out) + "\n"

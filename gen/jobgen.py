"""World-A job generation: workload (gen stream) + decision tape (tape stream)."""
from simkit.core import Streams, draw_lane, run_seed
from gen import topgen


def draw_tape(t, nres, kinds, density=None, scale=1.0):
    """Swarm style: each run enables a random subset of fault kinds and draws its own density."""
    density = density if density is not None else t.choice([0, 0.02, 0.1, 0.3, 0.6])
    bursty = t.random() < 0.5
    lanes = {}
    if density == 0:
        return lanes, 0.0, bursty
    enabled = [k for k in kinds if t.random() < 0.6] or [t.choice(kinds)]
    for k in enabled:
        if k == "step":
            lanes["step"] = draw_lane(t, int(t.randint(nres, 6 * nres + 10) * scale), density, bursty, maxval=2)
            # "all candidates rejected" (2) is expensive: keep it rare
            lanes["step"] = [v if (v != 2 or t.random() < 0.3) else 1 for v in lanes["step"]]
        elif k == "start":
            lanes["start"] = draw_lane(t, t.randint(2, 30), min(0.8, density * 1.5), bursty)
        elif k == "overlap":
            lanes["overlap"] = draw_lane(t, int(t.randint(10, 40 * nres + 20) * scale), density, bursty)
        elif k == "opt":
            lanes["opt"] = draw_lane(t, t.randint(1, 30), min(0.9, density * 2), bursty)
        elif k == "orient":
            lanes["orient"] = draw_lane(t, t.randint(nres, 3 * nres + 5), 0.7, False, maxval=7)
    return lanes, density, bursty


def base_job(prop, verif_seed, tier, index, profile):
    seed = run_seed(prop, verif_seed, index)
    st = Streams(seed)
    g, t = st.gen, st.tape
    spec = topgen.gen_system(g, profile)
    opts = topgen.choose_box(g, spec, profile)
    if g.random() < profile.get("p_gs", 0.3):
        opts["grid_spacing"] = g.choice([0.1, 0.25, 0.37, 0.5])
    if g.random() < profile.get("p_sf", 0.3):
        opts["step_fudge"] = g.choice([0.8, 0.9, 1.1, 1.25])
    if g.random() < profile.get("p_mf", 0.3):
        opts["max_force"] = g.choice([1e3, 1e4, 1e5])
    opts["nrewind"] = g.choice(profile.get("nrewind", [1, 2, 3, 4, 5]))
    if g.random() < profile.get("p_mi", 0.3):
        opts["maxiter"] = g.choice(profile.get("maxiter", [0, 1, 2, 800]))
    if g.random() < profile.get("p_bf", 0.3):
        opts["bfudge"] = g.choice([0.2, 0.4, 1.0])
    if g.random() < profile.get("p_mir", 0.3):
        opts["maxiter_random"] = g.choice([5, 20, 100])
    nres = topgen.n_residues(spec)
    lanes, density, bursty = draw_tape(t, nres, profile.get("faults", ["step", "start", "overlap", "opt", "orient"]),
                                       density=profile.get("density"))
    job = {"index": index, "run_seed": seed, "spec": spec, "opts": opts, "tape": lanes,
           "sys_seed": 0, "fault_density": density, "bursty": bursty,
           "dilute": "box" in opts and profile.get("dilute_hint", False)}
    return job, st


def reductions(job):
    """generic one-step reductions for world-A jobs: tape first, then workload"""
    tape = job.get("tape", {})
    # 1. drop whole lanes, then halves, then zero single entries
    for k in sorted(tape):
        cand = dict(job)
        cand["tape"] = {kk: v for kk, v in tape.items() if kk != k}
        yield cand
    for k in sorted(tape):
        lane = tape[k]
        n = len(lane)
        size = n // 2
        while size >= 1:
            for start in range(0, n, size):
                if not any(lane[start:start + size]):
                    continue
                cand = dict(job)
                cand["tape"] = dict(tape)
                cand["tape"][k] = lane[:start] + [0] * min(size, n - start) + lane[start + size:]
                yield cand
            if size == 1:
                break
            size //= 2
        # truncate trailing zeros
        trimmed = list(lane)
        while trimmed and trimmed[-1] == 0:
            trimmed.pop()
        if len(trimmed) < n:
            cand = dict(job)
            cand["tape"] = dict(tape)
            cand["tape"][k] = trimmed
            yield cand
    # 2. workload: drop [molecules] entries, reduce counts
    spec = job["spec"]
    mols = spec["molecules"]
    if not job.get("coord_text") and not job.get("build_file"):
        for i in range(len(mols)):
            if len(mols) > 1:
                cand = dict(job)
                cand["spec"] = dict(spec)
                cand["spec"]["molecules"] = mols[:i] + mols[i + 1:]
                yield cand
        for i, (name, cnt) in enumerate(mols):
            if cnt > 1:
                cand = dict(job)
                cand["spec"] = dict(spec)
                cand["spec"]["molecules"] = [list(m) for m in mols]
                cand["spec"]["molecules"][i][1] = cnt // 2 if cnt > 2 else 1
                yield cand
        # shorten linear molecule types from the end
        for mi, mt in enumerate(spec["moltypes"]):
            if mt["shape"] == "linear" and len(mt["residues"]) > 2:
                cand = dict(job)
                cand["spec"] = dict(spec)
                cand["spec"]["moltypes"] = [dict(m) for m in spec["moltypes"]]
                nm = cand["spec"]["moltypes"][mi]
                k = len(mt["residues"]) - 1
                nm["residues"] = mt["residues"][:k]
                nm["edges"] = [e for e in mt["edges"] if max(e) < k]
                yield cand
    # 3. options back to defaults
    for k in ("grid_spacing", "step_fudge", "max_force", "maxiter", "bfudge", "maxiter_random"):
        if k in job["opts"]:
            cand = dict(job)
            cand["opts"] = {kk: v for kk, v in job["opts"].items() if kk != k}
            yield cand
    for s in (0, 1, 2):
        if job.get("sys_seed", 0) != s and job.get("sys_seed", 0) > 2:
            cand = dict(job)
            cand["sys_seed"] = s
            yield cand


# ----------------------------------------------------------------------------- supplied coordinates (C04 workloads)
def _stage1(job):
    """Fault-free build of the same system; returns the parsed output (.gro) or None."""
    import os
    import shutil
    import tempfile
    from worlds import placement_world
    from oracles.final_state import read_gro
    s1 = {"index": job["index"], "run_seed": job["run_seed"] ^ 0x5151, "spec": job["spec"],
          "opts": {k: v for k, v in job["opts"].items() if k in ("box", "density", "grid_spacing", "step_fudge", "bfudge")},
          "tape": {}, "sys_seed": 1}
    scratch = os.environ.get("VERIF_SCRATCH") or tempfile.gettempdir()
    d = tempfile.mkdtemp(prefix="vs1_", dir=scratch)
    try:
        res = placement_world.run(s1, props=(), keep_dir=d)
        if res["raw_status"] != "ok" or not os.path.exists(os.path.join(d, "out.gro")):
            return None
        return read_gro(os.path.join(d, "out.gro"))
    finally:
        shutil.rmtree(d, ignore_errors=True)


def _synth_centres(job, g, lattice=False):
    """residue centres drawn by the generator itself (own little walk, wrapped into the box): -mc input that does
    not depend on an earlier build of the tree under test; bonded centres often lie across a box face.
    Returns a structure like read_gro() with ONE pseudo atom per atom of the topology (all atoms of a residue on its
    centre), or None."""
    import math
    from gen import topgen
    box = job["opts"].get("box")
    if box is None:
        return None
    spec = job["spec"]
    mts = {m["name"]: m for m in spec["moltypes"]}
    truth = topgen.ground_truth(spec)
    placed = []
    atoms = []
    for inst, (molname, alist) in enumerate(truth):
        mt = mts[molname]
        n = len(mt["residues"])
        adj = {k: [] for k in range(n)}
        for a, b in mt["edges"]:
            adj[a].append(b)
            adj[b].append(a)
        pos = {}
        order = [0]
        seen = {0}
        for k in order:
            for nb in adj[k]:
                if nb not in seen:
                    seen.add(nb)
                    order.append(nb)
        for k in order:
            parent = next((p for p in adj[k] if p in pos), None)
            for _try in range(200):
                if lattice:
                    # integer lattice points, bonded centres one lattice step apart
                    if parent is None:
                        cand = [float(g.randint(1, max(1, int(box[d]) - 1))) for d in range(3)]
                    else:
                        cand = list(pos[parent])
                        ax = g.randrange(3)
                        cand[ax] += g.choice([-1.0, 1.0])
                        if not (1.0 <= cand[ax] <= int(box[ax]) - 1):
                            continue
                    if any(all(abs(cand[d] - q[d]) < 0.5 for d in range(3)) for q in placed):
                        continue
                    break
                if parent is None:
                    cand = [g.uniform(0.05, box[d] - 0.05) for d in range(3)]
                else:
                    v = [g.gauss(0, 1) for _ in range(3)]
                    nv = math.sqrt(sum(x * x for x in v)) or 1.0
                    cand = [(pos[parent][d] + 0.55 * v[d] / nv) % box[d] for d in range(3)]
                cand = [min(max(round(c, 3), 0.002), round(box[d] - 0.003, 3)) for d, c in enumerate(cand)]
                ok = True
                for q in placed:
                    dd = [abs(cand[d] - q[d]) for d in range(3)]
                    dd = [min(x, box[d] - x) for d, x in enumerate(dd)]
                    if sum(x * x for x in dd) < 0.4 ** 2:
                        ok = False
                        break
                if ok:
                    break
            else:
                return None
            pos[k] = cand
            placed.append(cand)
        logical, last = -1, None
        for (resid, resname, aname, _t) in alist:
            if (resid, resname) != last:
                logical, last = logical + 1, (resid, resname)
            k = logical if mt.get("resid_restart") is not None else resid - 1     # (list_order: listing != numbering)
            atoms.append({"resid": resid, "resname": resname, "atomname": aname, "xyz": tuple(pos[k])})
    return {"atoms": atoms, "box": list(box)}


def prepare_ligands(job, g, lig_first=False):
    """-lig workload, step 1 (before coordinates are derived): 1-3 single-bead molecules LG are appended to the system.
    They will be missing from the supplied structure and named as ligands of supplied residues."""
    spec = job["spec"]
    hosts = [m for m in spec["moltypes"] if len(m["residues"]) >= 2]
    if not hosts or "LGR" in spec["restypes"]:
        return False
    at = spec["atypes"][0]["name"]
    spec["restypes"]["LGR"] = {"name": "LGR", "atoms": [{"name": "L1", "atype": at}], "bonds": [], "constraints": [],
                               "angles": [], "vsites": [], "blen": 0.3}
    if g.random() < 0.4:
        # the host is a ring molecule named in -cycles (its growth order is worked out before the ligands are attached)
        first = next(m for m in spec["moltypes"] if m["name"] == spec["molecules"][0][0])
        n = len(first["residues"])
        if n >= 4 and not first.get("list_order") and not first.get("resid_restart"):
            first.update({"shape": "ring", "edges": [[k, k + 1] for k in range(n - 1)] + [[0, n - 1]]})
            job["opts"]["cycles"] = [first["name"]]
            job["opts"]["cycle_tol"] = g.choice([0.2, 0.3])
            job["ligand_on_cyclic_host"] = True
    spec["moltypes"].append({"name": "LG", "shape": "single", "residues": ["LGR"], "edges": [], "nrexcl": 1})
    first = sum(c for _n, c in spec["molecules"])
    n = g.randint(1, 3)
    if lig_first:
        # the ligand molecules are listed BEFORE their hosts in [ molecules ] (ions first, polymers after)
        spec["molecules"].insert(0, ["LG", n])
        job["lig_plan"] = {"first": 0, "n": n, "lig_first": True, "nhost_inst": first}
        return True
    spec["molecules"].append(["LG", n])
    job["lig_plan"] = {"first": first, "n": n}
    return True


def finish_ligands(job, g):
    """-lig workload, step 2: every LG molecule becomes the ligand of a residue of a supplied host molecule"""
    from gen import bldgen
    plan = job["lig_plan"]
    inst = bldgen.instances(job["spec"])
    hosts = [i for i in range(plan["first"]) if len(inst[i]["residues"]) >= 2]
    if plan.get("lig_first"):
        hosts = [i for i in range(plan["n"], len(inst)) if len(inst[i]["residues"]) >= 2]
    if not hosts:
        return False
    if job.get("ligand_on_cyclic_host"):
        hosts = [i for i in hosts if inst[i]["name"] in (job["opts"].get("cycles") or [])] or hosts
    ligs = []
    used = set()
    for k in range(plan["n"]):
        h = g.choice(hosts)
        nres = len(inst[h]["residues"])
        free = [r for r in range(1, nres + 1) if (h, r) not in used]
        if not free:
            continue
        # mostly not the first residue: the root of the growth order is never the target of a step
        resid = g.choice([r for r in free if r >= 2] or free) if g.random() < 0.8 else g.choice(free)
        used.add((h, resid))
        ligs.append([f"{inst[h]['name']}#{h}-{inst[h]['residues'][resid - 1]}#{resid}", f"LG#{plan['first'] + k}"])
    if not ligs:
        return False
    job["opts"]["ligands"] = ligs
    bv = dict(job.get("bld_volumes") or {})
    bv["LGR"] = g.choice([0.4, 0.45, 0.5])      # the stand-in node of a ligand is sized by residue name
    job["bld_volumes"] = bv
    return True


def add_resid_restart(job, g):
    """block copolymers whose residue numbering starts again at 1 with the second block (valid GROMACS input; the
    two blocks use different residue names, so (number, name) still identifies a residue)"""
    done = False
    for mt in job["spec"]["moltypes"]:
        if mt.get("list_order") or mt.get("residue_override") or mt.get("restype_override") or len(mt["residues"]) < 2:
            continue
        res = mt["residues"]
        cuts = [k for k in range(1, len(res)) if not (set(res[:k]) & set(res[k:]))]
        if cuts and g.random() < 0.8:
            mt["resid_restart"] = g.choice(cuts)
            done = True
    if done:
        job["resid_restart"] = True
    return done


def add_both_inputs(job, g):
    """-c (complete atom-level structure of an earlier build) together with -mc (residue centres, moved a little
    away from where the atoms of -c are): polyply flags every residue for backmapping around the -mc centres"""
    from gen import topgen
    from oracles.final_state import write_gro_text
    gro = _stage1(job)
    if gro is None:
        return False
    box = gro["box"][:3]
    shift = [round(g.uniform(-0.3, 0.3), 3) for _ in range(3)]
    lines_c = [(at["resid"], at["resname"], at["atomname"]) + tuple(at["xyz"]) for at in gro["atoms"]]
    lines_m = []
    gi = 0
    for inst, (_m, atoms) in enumerate(topgen.ground_truth(job["spec"])):
        cur, idxs = None, []
        groups = []
        for (resid, resname, _an, _t) in atoms:
            if (resid, resname) != cur:
                cur = (resid, resname)
                groups.append((resid, resname, []))
            groups[-1][2].append(gi)
            gi += 1
        for resid, resname, idxs in groups:
            c = [sum(gro["atoms"][a]["xyz"][d] for a in idxs) / len(idxs) for d in range(3)]
            if not all(0.0 <= c[d] <= box[d] - 1e-3 for d in range(3)):
                return False
            m = [round(min(max(c[d] + shift[d], 0.01), box[d] - 0.01), 3) for d in range(3)]
            lines_m.append((resid, resname, "CG") + tuple(m))
    job["coord_text"] = write_gro_text("verif atoms", lines_c, box)
    job["meta_text"] = write_gro_text("verif centres", lines_m, box)
    job["coord_kind"] = "mol"
    job["coord_box"] = box
    job["coord_mode"] = "both"
    job["opts"].pop("box", None)
    job["opts"].pop("density", None)
    return True


def add_split(job, g):
    """-split: one residue type with >= 3 real atoms is cut into two new residues (both connected); used together with
    an atom-level input structure"""
    spec = job["spec"]
    used = {r for mt in spec["moltypes"] for r in mt["residues"] if any(n == mt["name"] for n, _ in spec["molecules"])}
    overridden = {n for mt in spec["moltypes"] for n in mt.get("restype_override", {})} | \
                 {mt["residues"][int(i)] for mt in spec["moltypes"] for i in mt.get("residue_override", {})}
    cands = []
    for n, rt in sorted(spec["restypes"].items()):
        nat = len(rt["atoms"])
        if n not in used or n in overridden or rt["vsites"] or nat < 3:
            continue
        adj = {k: set() for k in range(nat)}
        for a, b, *_ in list(rt["bonds"]) + list(rt["constraints"]):
            adj[a].add(b)
            adj[b].add(a)

        def connected(group):
            group = set(group)
            seen, todo = set(), [min(group)]
            while todo:
                x = todo.pop()
                if x in seen:
                    continue
                seen.add(x)
                todo += [y for y in adj[x] if y in group and y not in seen]
            return seen == group
        for j in range(1, nat):
            g1, g2 = list(range(j)), list(range(j, nat))
            if connected(g1) and connected(g2):
                cands.append((n, g1, g2))
    if not cands:
        return False
    n, g1, g2 = g.choice(cands)
    rt = spec["restypes"][n]
    # polyply refuses supplied residues whose centre lies outside the box: the centres of the new (smaller) residues
    # are tested here like those of the whole residues in add_coordinates
    if job.get("supplied_atoms") and job.get("coord_box"):
        from gen import topgen
        names1 = {rt["atoms"][k]["name"] for k in g1}
        box = job["coord_box"]
        gi = 0
        groups = {}
        for inst, (_m, atoms) in enumerate(topgen.ground_truth(spec)):
            for (resid, resname, aname, _t) in atoms:
                if resname == n and str(gi) in job["supplied_atoms"]:
                    groups.setdefault((inst, resid, aname in names1), []).append(job["supplied_atoms"][str(gi)])
                gi += 1
        for pts in groups.values():
            for d in range(3):
                c = sum(p[d] for p in pts) / len(pts)
                if not (0.0 <= c <= box[d] - 1e-3):
                    return False
    tag = n[-1]
    job["opts"]["split"] = [f"{n}:X{tag}-" + ",".join(rt["atoms"][k]["name"] for k in g1)
                            + f":Y{tag}-" + ",".join(rt["atoms"][k]["name"] for k in g2)]
    job["split_resname"] = n
    return True


def make_restart_job(job, g, alias=True):
    """a diblock a^i b^j whose residue numbers start again with the b block; half of the time b is a second NAME for
    the content of a (same atom names, one shared template).  Returns the index (within the molecule) of the first
    b residue, or None."""
    import copy
    spec = job["spec"]
    names = sorted(n for n, rt in spec["restypes"].items() if not rt["vsites"])
    if not names:
        return None
    a = g.choice(names)
    if not alias and len(names) < 2:
        return None
    if alias and (g.random() < 0.5 or len(names) < 2):
        b = "RX" if a != "RX" else "RY"
        spec["restypes"][b] = copy.deepcopy(spec["restypes"][a])
        spec["restypes"][b]["name"] = b
    else:
        b = g.choice([n for n in names if n != a])
    i, j = g.randint(1, 4), g.randint(1, 4)
    mt = spec["moltypes"][0]
    for k in ("list_order", "residue_override", "restype_override"):
        mt.pop(k, None)
    mt.update({"shape": "linear", "residues": [a] * i + [b] * j, "edges": [[x, x + 1] for x in range(i + j - 1)],
               "resid_restart": i})
    spec["molecules"] = [[mt["name"], g.randint(1, 2)]] + [e for e in spec["molecules"] if e[0] != mt["name"]][:2]
    job["resid_restart"] = True
    return i


def add_coordinates(job, g, profile, force_res=None, cut_at_instance=None, cut_at_residue=None):
    """Turn `job` into a two-stage job: supply (part of) an earlier build as -c / -mc input."""
    from gen import topgen
    from oracles.final_state import write_gro_text
    gro = None
    synth = False
    if profile.get("lattice_centres"):
        gro = _synth_centres(job, g, lattice=True)
        synth = gro is not None
        if gro is None:
            return False
    elif g.random() < profile.get("p_synth_centres", 0.0):
        gro = _synth_centres(job, g)
        synth = gro is not None
    if gro is None:
        gro = _stage1(job)
    if gro is None:
        return False
    spec = job["spec"]
    truth = topgen.ground_truth(spec)          # per instance (molname, [(resid, resname, aname, atype)])
    # residues in topology order: (instance, resid, resname, [global atom indices])
    residues = []
    gi = 0
    for inst, (molname, atoms) in enumerate(truth):
        cur = None
        for (resid, resname, aname, _t) in atoms:
            if cur is None or cur[1] != resid or cur[2] != resname:
                cur = [inst, resid, resname, [], molname]
                residues.append(cur)
            cur[3].append(gi)
            gi += 1
    # polyply refuses coordinates whose residue centre lies outside the box, also when they stem from its
    # own output (backmapped atoms may stick out): such stage-1 results are not used as input
    import numpy as np
    for (_i, _r, _n, idxs, _m) in residues:
        c = np.average(np.array([gro["atoms"][a]["xyz"] for a in idxs], dtype=float), axis=0)
        c2 = np.array([round(sum(gro["atoms"][a]["xyz"][d] for a in idxs) / len(idxs), 3) for d in range(3)])
        for cc in (c, c2):
            if not (np.all(cc >= 0.0) and np.all(cc <= np.array(gro["box"][:3]) - 1e-3)):
                return False
    if synth:
        profile = dict(profile, coord_modes=["meta_full", "meta_prefix", "meta_prefix", "meta_res", "meta_res_prefix"])
        job["synthetic_centres"] = True
    mode = g.choice(profile.get("coord_modes", ["full", "prefix", "prefix", "meta_full", "meta_prefix", "res", "res_prefix",
                                                "ign", "ign", "meta_res", "meta_res_prefix"]))
    if cut_at_instance is not None:
        mode = "meta_prefix" if (synth or g.random() < 0.6) else "prefix"
    kind = "meta" if mode.startswith("meta") else "mol"
    nres = len(residues)
    cut = nres
    if "prefix" in mode:
        cut = g.randint(1, max(1, nres - 1))
    if cut_at_instance is not None:
        cut = min(k for k, r in enumerate(residues) if r[0] >= cut_at_instance)
    if cut_at_residue is not None:
        mode = "prefix" if not synth and g.random() < 0.7 else "meta_prefix"
        kind = "meta" if mode.startswith("meta") else "mol"
        cut = cut_at_residue
    res_names = []
    ignore = []
    molnames = [m for m, _ in spec["molecules"]]
    if mode.startswith("ign"):
        distinct = sorted(set(molnames))
        if len(distinct) < 2:
            mode = "prefix"
            cut = g.randint(1, max(1, nres - 1))
        else:
            ignore = g.sample(distinct, g.randint(1, min(2, len(distinct) - 1)))
            # everything up to the last ignored instance has to be in the file
            last_ign = max(i for i, (m, _a) in enumerate(truth) if m in ignore)
            lo = max(k for k, r in enumerate(residues) if r[0] == last_ign) + 1
            cut = g.randint(lo, nres) if g.random() < 0.7 else nres
            if cut == nres and g.random() < 0.8 and lo < nres:
                cut = g.randint(lo, nres - 1)
    if "res" in mode.split("_"):
        names = sorted({r[2] for r in residues if r[4] not in ignore})
        res_names = g.sample(names, g.randint(1, min(2, len(names))))
        if force_res:
            res_names = list(force_res)
    lines = []
    supplied_atoms = {}
    supplied_centres = {}
    built = []
    for k, (inst, resid, resname, idxs, molname) in enumerate(residues):
        if resname in res_names or k >= cut:
            built.append([inst, resid, resname])
            continue
        if kind == "mol":
            for a in idxs:
                at = gro["atoms"][a]
                lines.append((at["resid"], at["resname"], at["atomname"]) + tuple(at["xyz"]))
                supplied_atoms[str(a)] = list(at["xyz"])
        else:
            xyz = [round(sum(gro["atoms"][a]["xyz"][d] for a in idxs) / len(idxs), 3) for d in range(3)]
            lines.append((resid, resname, "CG") + tuple(xyz))
            supplied_centres[f"{inst}:{resid}:{resname}"] = xyz
    if kind == "mol" and lines and g.random() < profile.get("p_wrap_atoms", 0.0):
        # the supplied structure is wrapped into the cell atom by atom (trjconv -pbc atom): residues at a box face are
        # split over it; the numbers in the file are what has to be kept
        bx = gro["box"][:3]
        wrapped = []
        for l in lines:
            xyz = tuple(round(l[3 + d] % bx[d], 3) if not (0.0 <= l[3 + d] < bx[d]) else l[3 + d] for d in range(3))
            xyz = tuple(min(x, round(bx[d] - 0.001, 3)) for d, x in enumerate(xyz))
            wrapped.append(l[:3] + xyz)
        if wrapped != lines:
            job["atoms_wrapped_per_atom"] = True
            for a_key, l in zip([k for k in supplied_atoms], wrapped):
                supplied_atoms[a_key] = list(l[3:])
        lines = wrapped
    job["coord_text"] = write_gro_text("verif input", lines, gro["box"][:3])
    if lines and g.random() < profile.get("p_atomno_restart", 0.0):
        # atom-number column as in single-molecule files pasted together: the numbers start again with every residue
        # whose number is 1 (and are otherwise arbitrary for a reader that goes by position in the file)
        nos, k = [], 0
        for idx, l in enumerate(lines):
            k = 1 if (l[0] == 1 and (idx == 0 or lines[idx - 1][0] != 1)) else k + 1
            nos.append(k)
        job["coord_text"] = write_gro_text("verif input", lines, gro["box"][:3], atom_numbers=nos)
        job["atom_numbers_restart"] = True
    if kind == "mol" and lines and g.random() < profile.get("p_pdb", 0.0) and all(len(l[2]) <= 4 and len(l[1]) <= 3 for l in lines):
        from oracles.final_state import write_pdb_text
        job["coord_text"] = write_pdb_text(lines, gro["box"][:3])
        job["coord_ext"] = "pdb"
        if ("box" in job["opts"] or "density" in job["opts"]) and g.random() < profile.get("p_pdb_nobox", 0.4):
            # no CRYST1 record: the structure brings no box, the requested one applies
            job["coord_text"] = write_pdb_text(lines, None)
            job["pdb_no_box"] = True
    if kind == "mol" and job.get("coord_ext") != "pdb" and g.random() < profile.get("p_pre_call", 0.0):
        # the complete earlier build, to be read from the same path by an earlier call in the same process
        full = [(at["resid"], at["resname"], at["atomname"]) + tuple(at["xyz"]) for at in gro["atoms"]]
        if len(full) != len(lines):
            job["pre_coord_text"] = write_gro_text("verif earlier input", full, gro["box"][:3])
    if lines and job.get("coord_ext") != "pdb" and not job.get("pre_coord_text") and g.random() < profile.get("p_rel_inputs", 0.0):
        # the same residues at other places (moved 0.05 nm towards the box centre): lies next to the topology
        bx = gro["box"][:3]
        moved = [l[:3] + tuple(round(l[3 + d] + (0.05 if l[3 + d] < bx[d] / 2 else -0.05), 3) for d in range(3)) for l in lines]
        job["rel_decoy_text"] = write_gro_text("verif other structure", moved, bx)
        job["rel_inputs"] = True
    job["coord_kind"] = kind
    job["coord_box"] = gro["box"][:3]
    if job.get("coord_ext") == "pdb":
        job["coord_box"] = [float("%.3f" % (10 * b)) / 10 for b in gro["box"][:3]]     # CRYST1 keeps 3 decimals in A
    if job.get("pdb_no_box"):
        job["coord_box"] = None
    job["coord_mode"] = mode
    job["supplied_atoms"] = supplied_atoms
    job["supplied_centres"] = supplied_centres
    job["expected_built"] = built
    job["ignored_instances"] = [i for i, (m, _a) in enumerate(truth) if m in ignore]
    if res_names:
        job["opts"]["build_res"] = res_names
    if ignore:
        job["opts"]["ignore"] = ignore
    # box options: keep, drop, or contradict (input structure wins)
    r = g.random()
    if job.get("pdb_no_box"):
        r = 0.45 + 0.55 * r         # the options stay (or the box is enlarged): they are the only source of a box
    if r < 0.4:
        job["opts"].pop("box", None)
        job["opts"].pop("density", None)
    elif r < 0.55 and "box" in job["opts"]:
        job["opts"]["box"] = [round(b + 0.5, 3) for b in job["opts"]["box"]]
    elif "density" in job["opts"]:
        pass
    return True


# ----------------------------------------------------------------------------- further option kinds
def add_user_grid(job, g):
    """-grid: a file with start points (inside the box)"""
    box = job["opts"].get("box")
    if box is None and job["opts"].get("density") is not None:
        # the box follows from -dens: cubic, volume = total mass / density
        from gen import topgen
        L = (topgen.total_mass(job["spec"]) * 1.6605410 / job["opts"]["density"]) ** (1.0 / 3.0)
        box = [L, L, L]
        job["grid_with_density_box"] = True
    if box is None:
        return False
    n = g.choice([2, 3, 3, 4]) if g.random() < 0.3 else g.randint(30, 200)       # also files with very few points (a one-line file is read as a 1-D array and crashes polyply: not generated)
    job["grid_points"] = [[round(g.uniform(0, box[d] * 0.999), 4) for d in range(3)] for _ in range(n)]
    return True


def add_start(job, g):
    """-start <mol_name>#<mol_idx>-<resname>#<resid> for one or two molecule types"""
    spec = job["spec"]
    mts = {m["name"]: m for m in spec["moltypes"]}
    used = sorted({n for n, c in spec["molecules"] if c > 0})       # (entries with count 0 name no molecule)
    specs = []
    for name in g.sample(used, g.randint(1, min(2, len(used)))):
        mt = mts[name]
        k = g.randrange(len(mt["residues"]))
        from gen import topgen
        rid = topgen.file_resid(mt, k)        # the number the residue carries in the file (numbering may restart)
        if g.random() < 0.5:
            specs.append(f"{name}-{mt['residues'][k]}#{rid}")
        else:
            # by molecule index
            idx = 0
            cand = []
            for n, c in spec["molecules"]:
                for _ in range(c):
                    if n == name:
                        cand.append(idx)
                    idx += 1
            specs.append(f"{name}#{g.choice(cand)}-{mt['residues'][k]}#{rid}")
    job["opts"]["start"] = specs
    return True


def add_start_on_supplied(job, g):
    """-start naming a residue whose centre is SUPPLIED (-mc) in a molecule of which other residues have to be built:
    the walk starts from the given residue, nothing is seeded"""
    from gen import bldgen
    if job.get("coord_kind") != "meta" or not job.get("supplied_centres") or job["opts"].get("ignore"):
        return False
    inst = bldgen.instances(job["spec"])
    built_inst = {e[0] for e in job.get("expected_built", [])}
    cands = []
    for key in job["supplied_centres"]:
        parts = key.split(":")
        i, resid = int(parts[0]), int(parts[1])
        if i in built_inst and len(parts) > 2:
            cands.append((i, resid, parts[2]))
    if not cands:
        return False
    # preferably a molecule whose FIRST residue is among those to be built (the default start of the walk)
    from gen import topgen
    built = {tuple(e) for e in job.get("expected_built", [])}
    pref = [c for c in cands if (c[0], topgen.file_resid(inst[c[0]], 0), inst[c[0]]["residues"][0]) in built]
    i, resid, resname = g.choice(sorted(pref or cands))
    job["opts"]["start"] = [f"{inst[i]['name']}#{i}-{resname}#{resid}"]
    job["start_on_supplied"] = True
    return True


def add_user_templates(job, g, allow_vs=False):
    """[ template ] and/or [ volumes ] entries for some residue types (with virtual sites only if allow_vs: the
    template then gives a position for the site as well, its [ bonds ] list the real bonds only)"""
    spec = job["spec"]
    names = [n for n, rt in sorted(spec["restypes"].items()) if allow_vs or not rt["vsites"]]
    used = set()
    for mt in spec["moltypes"]:
        if any(n == mt["name"] for n, _ in spec["molecules"]):
            used.update(mt["residues"])
            # overridden residue types differ in content: no user template for those names
            names = [n for n in names if n not in mt.get("restype_override", {})]
            names = [n for n in names if n not in {mt["residues"][int(i)] for i in mt.get("residue_override", {})}]
    # names whose residues differ in content (several templates per name): a size may still be given for the name
    clash_names = sorted({n for mt in spec["moltypes"] for n in mt.get("restype_override", {})}
                         | {mt["residues"][int(i)] for mt in spec["moltypes"] for i in mt.get("residue_override", {})})
    clash_names = [n for n in clash_names if n in used]
    names = [n for n in names if n in used]
    if not names and not clash_names:
        return False
    templates = {}
    volumes = {}
    user_templates = {}
    user_volumes = {}
    chosen = g.sample(names, g.randint(1, min(2, len(names)))) if names else []
    if job.get("alias_pair") and all(x in names for x in job["alias_pair"]):
        chosen = list(job["alias_pair"])          # templates for two residue names with the same labelled graph
    for n in chosen:
        rt = spec["restypes"][n]
        what = g.choice(["template", "volume", "both"]) if not job.get("alias_pair") else "template"
        if what in ("template", "both"):
            atoms = {}
            ut = {}
            shared = job.get("alias_pair") and user_templates.get(job["alias_pair"][0])
            for k, a in enumerate(rt["atoms"]):
                xyz = [round(0.3 * k + g.uniform(-0.1, 0.1), 3), round(g.uniform(-0.2, 0.2), 3), round(g.uniform(-0.2, 0.2), 3)]
                if shared:
                    xyz = list(shared[a["name"]])     # both names describe one labelled graph: one geometry
                atoms[a["name"]] = [a["atype"], xyz]
                ut[a["name"]] = xyz
            bonds = [[rt["atoms"][a]["name"], rt["atoms"][b]["name"]] for a, b, *_ in rt["bonds"]]
            bonds += [[rt["atoms"][a]["name"], rt["atoms"][b]["name"]] for a, b, *_ in rt["constraints"]]
            templates[n] = {"atoms": atoms, "bonds": bonds}
            user_templates[n] = ut
        if what in ("volume", "both"):
            v = round(g.uniform(0.35, 0.7), 3)
            volumes[n] = v
            user_volumes[n] = v
    if clash_names and g.random() < 0.7:
        n = g.choice(clash_names)
        v = round(g.uniform(0.35, 0.7), 3)
        volumes[n] = v
        user_volumes[n] = v
        job["volume_for_clashing_name"] = True
    job["bld_templates"] = templates
    job["bld_volumes"] = volumes
    job["user_templates"] = user_templates
    job["user_volumes"] = user_volumes
    return True


def add_template_with_subset_variant(job, g):
    """a [ template ] for residue name X while one residue of that name (a chain end) lacks the last bead of X: the
    user template applies to the residues whose labelled graph it describes, the shorter variant gets its own"""
    spec = job["spec"]
    # make sure a suitable chain exists: the first molecule type becomes a homopolymer of a residue type with >= 3
    # atoms whose last atom is a leaf
    for rn0, rt0 in sorted(spec["restypes"].items()):
        n0 = len(rt0["atoms"])
        pr = [(a, b) for a, b, *_ in list(rt0["bonds"]) + list(rt0["constraints"])]
        if not rt0["vsites"] and n0 >= 3 and sum(1 for a, b in pr if n0 - 1 in (a, b)) == 1 \
                and not rt0.get("impossible") and not rt0.get("conflict"):
            mt0 = spec["moltypes"][0]
            for k in ("list_order", "residue_override", "restype_override", "resid_restart"):
                mt0.pop(k, None)
            k = g.randint(3, 5)
            mt0.update({"shape": "linear", "residues": [rn0] * k, "edges": [[x, x + 1] for x in range(k - 1)]})
            if not any(n == mt0["name"] for n, _ in spec["molecules"]):
                spec["molecules"].append([mt0["name"], 1])
            break
    for mt in spec["moltypes"]:
        if mt.get("residue_override") or mt.get("restype_override") or mt.get("list_order") or \
                not any(n == mt["name"] for n, _ in spec["molecules"]):
            continue
        for rn in sorted(set(mt["residues"])):
            rt = spec["restypes"][rn]
            idxs = [i for i, r in enumerate(mt["residues"]) if r == rn]
            n = len(rt["atoms"])
            if rt["vsites"] or n < 3 or len(idxs) < 2 or rt.get("impossible") or rt.get("conflict"):
                continue
            last = n - 1
            pairs = [(a, b) for a, b, *_ in list(rt["bonds"]) + list(rt["constraints"])]
            if sum(1 for a, b in pairs if last in (a, b)) != 1:
                continue            # only a leaf can be dropped without cutting the residue in two
            # the link bond of the generator leaves from the LAST real atom: the variant sits at the end of the chain
            var = {k: ([list(x) if isinstance(x, list) else (dict(x) if isinstance(x, dict) else x) for x in v]
                       if isinstance(v, list) else v) for k, v in rt.items()}
            var["atoms"] = var["atoms"][:last]
            for sec in ("bonds", "constraints", "angles", "impropers", "propers"):
                var[sec] = [e for e in var.get(sec, []) if last not in e[:{"bonds": 2, "constraints": 2, "angles": 3}.get(sec, 4)]]
            var["angle_functs"] = []
            tail = [i for i in idxs if not any(a == i for a, _b in map(sorted, mt["edges"]))]
            if not tail:
                continue
            mt["residue_override"] = {str(tail[-1]): var}
            atoms, ut = {}, {}
            for k, a in enumerate(rt["atoms"]):
                xyz = [round(0.3 * k + g.uniform(-0.1, 0.1), 3), round(g.uniform(-0.2, 0.2), 3), round(g.uniform(-0.2, 0.2), 3)]
                atoms[a["name"]] = [a["atype"], xyz]
                ut[a["name"]] = xyz
            bonds = [[rt["atoms"][a]["name"], rt["atoms"][b]["name"]] for a, b in pairs]
            job["bld_templates"] = dict(job.get("bld_templates") or {}, **{rn: {"atoms": atoms, "bonds": bonds}})
            job["user_templates"] = dict(job.get("user_templates") or {}, **{rn: ut})
            job["template_with_subset_variant"] = True
            return True
    return False


def add_resname_clash(job, g):
    """equal residue names with different content in different molecule types / permuted atom names"""
    from gen import topgen
    spec = job["spec"]
    if len(spec["moltypes"]) < 2:
        return False
    mt = spec["moltypes"][-1]
    rn = g.choice(sorted(set(mt["residues"])))
    base = spec["restypes"][rn]
    mode = g.choice(["other_content", "permuted_names", "permuted_in_molecule", "permuted_in_molecule"])
    if mode == "permuted_in_molecule":
        # two residues with the same name, the same bond skeleton and different atom names in ONE molecule
        idxs = [i for i, r in enumerate(mt["residues"]) if r == rn]
        used = [m for m in spec["moltypes"] if mt["residues"].count(rn) >= 2 and len(base["atoms"]) - len(base["vsites"]) >= 2]
        if len(idxs) < 2 or not used or base["vsites"]:
            mode = "permuted_names"
        else:
            new = {k: (list(v) if isinstance(v, list) else v) for k, v in base.items()}
            names = [a["name"] for a in base["atoms"]]
            if g.random() < 0.5:
                perm = names[1:] + names[:1]              # same names on other positions of the skeleton
            else:
                perm = [nm + "x" for nm in names]         # different atom names
            new["atoms"] = [dict(a, name=perm[i]) for i, a in enumerate(base["atoms"])]
            mt["residue_override"] = {str(idxs[-1]): new}
            job["resname_clash"] = mode
            if g.random() < 0.7:
                job["opts"]["skip_filter"] = True
            return True
    if mode == "other_content":
        new = topgen.gen_restype(g, rn, [a["name"] for a in spec["atypes"]], 7, allow_vs=False)
    else:
        new = {k: (list(v) if isinstance(v, list) else v) for k, v in base.items()}
        names = [a["name"] for a in base["atoms"]]
        perm = names[:]
        g.shuffle(perm)
        new["atoms"] = [dict(a, name=perm[i]) for i, a in enumerate(base["atoms"])]
    mt["restype_override"] = {rn: new}
    job["resname_clash"] = mode
    return True


def add_bigger_variant(job, g):
    """some residues of a molecule keep their residue NAME but carry one or two extra beads (functionalised repeat
    units): same name, different template and size inside one molecule"""
    spec = job["spec"]
    cands = [m for m in spec["moltypes"] if len(m["residues"]) >= 3 and not m.get("residue_override")
             and not m.get("restype_override") and not m.get("list_order")]
    if not cands:
        return False
    mt = g.choice(cands)
    rn = g.choice(sorted(set(mt["residues"])))
    base = spec["restypes"][rn]
    if base["vsites"] or base.get("impossible") or base.get("conflict"):
        return False
    idxs = [i for i, r in enumerate(mt["residues"]) if r == rn]
    pick = [i for i in idxs if g.random() < 0.4] or [g.choice(idxs)]
    if len(pick) == len(idxs) and len(idxs) > 1:
        pick = pick[:-1]
    new = {k: ([list(x) if isinstance(x, list) else (dict(x) if isinstance(x, dict) else x) for x in v]
               if isinstance(v, list) else v) for k, v in base.items()}
    n0 = len(new["atoms"])
    at = new["atoms"][0]["atype"]
    extra = g.randint(1, 2)
    for e in range(extra):
        new["atoms"].append({"name": f"Z{e + 1}", "atype": at})
        new["bonds"].append([n0 - 1 + e, n0 + e, base.get("blen", 0.3), 5000])
    mt["residue_override"] = {str(i): new for i in pick}
    job["bigger_variant"] = True
    return True


def make_interior_kept(job, g):
    """one linear chain type a^i b^j a^k whose b residues are supplied (kept) and whose a residues are rebuilt
    (-res a): kept residues lie in the middle of the growth order, so rewinds pass over them"""
    spec = job["spec"]
    names = sorted(spec["restypes"])
    if len(names) < 2:
        return False
    a, b = g.sample(names, 2)
    i, j, k = g.randint(2, 4), g.randint(1, 2), g.randint(2, 4)
    mt = spec["moltypes"][0]
    mt.pop("resid_restart", None)
    mt.update({"shape": "linear", "residues": [a] * i + [b] * j + [a] * k,
               "edges": [[x, x + 1] for x in range(i + j + k - 1)]})
    mt.pop("restype_override", None)
    spec["molecules"] = [[mt["name"], g.randint(1, 2)]]
    from gen import topgen
    job["opts"].pop("density", None)
    job["opts"].update(topgen.choose_box(g, spec, {"box_modes": ["cubic", "noncubic"]}))

    class _G:           # force the 'res' mode with -res a
        def __init__(self, g):
            self.g = g

        def __getattr__(self, n):
            return getattr(self.g, n)

    ok = add_coordinates(job, g, {"coord_modes": ["res"]}, force_res=[a])
    job["interior_kept"] = ok
    if ok and g.random() < 0.5:
        # a (very loose, always satisfiable) distance restraint from a build file: the growth order of the molecule is
        # worked out before the walk starts
        n = i + j + k
        job["build_spec"] = [{"mol": mt["name"], "from": 0, "to": sum(c for _n, c in spec["molecules"]),
                              "items": [{"kind": "dist", "a": 0, "b": n - 1, "d": 1.0, "tol": 60.0}]}]
    return ok


def add_pre_variant(job, g, kind=None):
    """an earlier gen_coords call in the same process (same file names) over a VARIANT of the system:
    other_geometry - same residue graphs and names, other bond lengths / angles (templates differ);
    other_graph    - a molecule type of the same name with another residue graph;
    shorter        - see add_pre_spec"""
    import copy
    kind = kind or g.choice(["other_geometry", "other_graph", "shorter"])
    if kind == "shorter":
        return add_pre_spec(job, g)
    spec = job["spec"]
    alt = copy.deepcopy(spec)
    if kind == "other_geometry":
        for rt in alt["restypes"].values():
            for b in rt["bonds"]:
                b[2] = round(min(0.6, b[2] * g.choice([0.6, 1.5, 1.8])), 3)
            for c in rt["constraints"]:
                c[2] = round(min(0.6, c[2] * g.choice([0.6, 1.5])), 3)
            for a in rt["angles"]:
                a[3] = g.choice([90, 110, 160])
    else:
        mt = alt["moltypes"][0]
        n = len(mt["residues"])
        if n < 3:
            return False
        if mt["shape"] == "linear":
            mt["shape"], mt["edges"] = "star", [[0, k] for k in range(1, n)]
        else:
            mt["shape"], mt["edges"] = "linear", [[k, k + 1] for k in range(n - 1)]
    job["pre_spec"] = alt
    job["pre_kind"] = kind
    return True


def add_pre_spec(job, g):
    """an earlier call in the same process over a slightly different topology written to the SAME file names
    (an included .itp regenerated between two runs)"""
    import copy
    spec = job["spec"]
    alt = copy.deepcopy(spec)
    alt["split_files"] = spec["split_files"] = True
    if len(spec["moltypes"]) < 2:
        return False
    mt = alt["moltypes"][-1]
    mt.pop("list_order", None)
    mt.pop("residue_override", None)
    mt.pop("resid_restart", None)
    if mt["shape"] in ("linear",) and len(mt["residues"]) >= 3:
        k = len(mt["residues"]) - 1
        mt["residues"] = mt["residues"][:k]
        mt["edges"] = [e for e in mt["edges"] if max(e) < k]
    else:
        names = sorted(spec["restypes"])
        mt.update({"shape": "linear", "residues": [names[0]] * 3, "edges": [[0, 1], [1, 2]]})
        mt.pop("residue_override", None)
    job["pre_spec"] = alt
    return True


def add_cond_include(job, g):
    """the last molecule type is #included inside a top-level #ifdef/#ifndef section whose other branch includes a
    different description under the same moleculetype name"""
    scratch = {"spec": job["spec"]}
    if job["spec"].get("cond_include") or not add_pre_spec(scratch, g):
        return False
    alt = scratch["pre_spec"]["moltypes"][-1]
    kind = g.choice(["ifdef", "ifndef"])
    defined = g.random() < 0.5
    first_active = (kind == "ifdef") == defined
    # without #else only an inactive single branch with the other description makes sense next to a plain include:
    # keep #else in every generated case
    # with split_all no moleculetype is written into the .top itself: the pragmas are then met at the top level of
    # the file; otherwise they follow the inline first moleculetype
    job["spec"]["split_all"] = g.random() < 0.5
    job["spec"]["cond_include"] = {"flag": g.choice(["VARIANT", "FLEXIBLE", "FINE"]), "kind": kind, "defined": defined,
                                   "alt": alt, "with_else": True, "first_active": first_active}
    return True


def add_alias_restype(job, g):
    """a second residue NAME with exactly the atoms and bonds of an existing one (same labelled graph, so both share
    one template), used in the same molecules; returns the two names or None"""
    import copy
    spec = job["spec"]
    cands = [n for n, rt in sorted(spec["restypes"].items()) if not rt["vsites"] and len(rt["atoms"]) >= 2
             and any(n in mt["residues"] for mt in spec["moltypes"])]
    if not cands:
        return None
    n = g.choice(cands)
    alias = "RX" if n != "RX" else "RY"
    spec["restypes"][alias] = copy.deepcopy(spec["restypes"][n])
    spec["restypes"][alias]["name"] = alias
    done = False
    for mt in spec["moltypes"]:
        if mt.get("residue_override") or mt.get("restype_override"):
            continue
        idxs = [i for i, r in enumerate(mt["residues"]) if r == n]
        for i in idxs[1::2] or idxs[:1]:
            mt["residues"][i] = alias
            done = True
    return (n, alias) if done else None


def add_alias_other_masses(job, g):
    """a second residue name with the atoms (names, bonds) of an existing one but atom types of other MASS: same
    labelled graph - one shared template - but another weight (matters for a box that follows from -dens)"""
    spec = job["spec"]
    if len(spec["atypes"]) < 2:
        return False
    pair = add_alias_restype(job, g)
    if not pair:
        return False
    n, alias = pair
    masses = {a["name"]: a["mass"] for a in spec["atypes"]}
    for atom in spec["restypes"][alias]["atoms"]:
        others = [t for t in sorted(masses) if masses[t] != masses[atom["atype"]]]
        if others:
            atom["atype"] = g.choice(others)
    job["alias_other_masses"] = True
    return True


def add_list_order(job, g):
    """residues listed in the itp in another order than their residue ids (side chains after each backbone residue,
    blocks numbered independently ...)"""
    done = False
    for mt in job["spec"]["moltypes"]:
        n = len(mt["residues"])
        if n >= 3 and g.random() < 0.7:
            mode = g.choice(["interleave", "reverse", "shuffle"])
            if mode == "interleave":
                half = (n + 1) // 2
                order = []
                for k in range(half):
                    order.append(k)
                    if half + k < n:
                        order.append(half + k)
            elif mode == "reverse":
                order = list(range(n - 1, -1, -1))
            else:
                order = list(range(n))
                g.shuffle(order)
            mt["list_order"] = order
            done = True
    job["list_order"] = done
    return done


def make_large_system(job, g):
    """> 5000 positioned single-residue molecules (supplied with -c on a lattice that fills 3/4 of the box) plus a few
    short chains to be built in the empty quarter: the neighbour engine opens a second search tree for the first start"""
    from oracles.final_state import write_gro_text
    spec = job["spec"]
    at = spec["atypes"][0]["name"]
    spec["restypes"] = {"SV": {"name": "SV", "atoms": [{"name": "W", "atype": at}], "bonds": [], "constraints": [],
                               "angles": [], "vsites": [], "blen": 0.3},
                        "RA": {"name": "RA", "atoms": [{"name": "A1", "atype": at}, {"name": "A2", "atype": at}],
                               "bonds": [[0, 1, 0.3, 5000]], "constraints": [], "angles": [], "vsites": [], "blen": 0.3}}
    nsol = g.randint(5001, 5030)
    nch = g.randint(2, 4)
    lch = g.randint(3, 5)
    spec["moltypes"] = [{"name": "SOLV", "shape": "single", "residues": ["SV"], "edges": [], "nrexcl": 1},
                        {"name": "CH", "shape": "linear", "residues": ["RA"] * lch, "edges": [[k, k + 1] for k in range(lch - 1)],
                         "nrexcl": 1}]
    spec["molecules"] = [["SOLV", nsol], ["CH", nch]]
    spec["split_files"] = False
    spec["with_mass"] = True
    spacing = 0.55
    nx = 19
    L = round(nx * spacing + 0.05, 3)
    pts = []
    for i in range(nx):
        if i * spacing > 0.72 * L:
            break
        for j in range(nx):
            for k in range(nx):
                pts.append((round(0.1 + i * spacing, 3), round(0.1 + j * spacing, 3), round(0.1 + k * spacing, 3)))
    if len(pts) < nsol:
        return False
    g.shuffle(pts)
    lines = [(1, "SV", "W") + pts[i] for i in range(nsol)]
    job["opts"] = {"nrewind": g.choice([1, 2, 3]), "maxiter": g.choice([1, 2, 800])}
    job["coord_text"] = write_gro_text("verif large", lines, [L, L, L])
    job["coord_kind"] = "mol"
    job["coord_box"] = [L, L, L]
    job["coord_mode"] = "prefix"
    job["supplied_atoms"] = {str(i): list(pts[i]) for i in range(0, nsol, 97)}      # a sample is compared
    job["supplied_centres"] = {}
    job["expected_built"] = [[nsol + c, r + 1] for c in range(nch) for r in range(lch)]
    job["ignored_instances"] = []
    # the first start of each chain is accepted, then steps fail: attempts are abandoned and retried
    job["tape"] = {"step": [g.choice([0, 1, 1]) for _ in range(6 * nch)] + [0] * 5}
    job["large_system"] = True
    job["dilute"] = False
    return True

"""World C - program histories of gen_params / gen_seq / gen_coords in one process.

`exec_history` runs in a *fresh child process* forked from a zygote interpreter that was
started with the PYTHONHASHSEED of the history (worlds/zygote.py), so that every history
starts from the same pristine polyply/vermouth state and is exactly replayable, while the
process-global state (DeferredFileWriter queue, in-place edited force-field objects, caches)
is carried along *within* the history - it is the thing under test.
"""
import hashlib
import io
import json
import logging
import os
import random
import shutil
import sys
import tempfile
import traceback
from pathlib import Path

import numpy as np

from simkit.core import SimCrash, h64


# ----------------------------------------------------------------------------- itp text parsing (independent)
def parse_itp_text(text):
    """-> dict(header, moleculetype, atoms [raw lines], sections {name: [(guard, tokens)]})"""
    header = []
    lines = text.split("\n")
    i = 0
    while i < len(lines) and (lines[i].startswith(";") or lines[i].strip() == ""):
        header.append(lines[i])
        i += 1
    body = lines[i:]
    section = None
    guard = None
    atoms = []
    sections = {}
    moltype = None
    for ln in body:
        raw = ln
        code = ln.split(";", 1)[0].strip()
        if not code:
            continue
        if code.startswith("["):
            section = code.strip("[] ").strip()
            continue
        if code.startswith("#ifdef") or code.startswith("#ifndef"):
            guard = tuple(code[1:].split())
            continue
        if code.startswith("#endif"):
            guard = None
            continue
        if section == "moleculetype":
            moltype = code.split()
        elif section == "atoms":
            atoms.append(" ".join(code.split()))
        else:
            sections.setdefault(section, []).append((guard, tuple(code.split())))
    return {"header": header, "moleculetype": moltype, "atoms": atoms, "sections": sections,
            "body": "\n".join(body)}


def _num(tok):
    try:
        return float(tok)
    except (TypeError, ValueError):
        return str(tok)


SYMMETRIC = {"bonds", "constraints", "angles", "dihedrals", "impropers", "pairs", "cmap"}


def canon_atoms(section, atoms):
    """listing direction of a bonded interaction is immaterial (a-b-c == c-b-a)"""
    atoms = tuple(atoms)
    if section in SYMMETRIC:
        rev = tuple(reversed(atoms))
        return min(atoms, rev)
    return atoms


def _params_equal(a, b):
    if len(a) != len(b):
        return False
    for x, y in zip(a, b):
        nx_, ny = _num(x), _num(y)
        if isinstance(nx_, float) and isinstance(ny, float):
            if abs(nx_ - ny) > 1e-6 * max(1.0, abs(nx_)):
                return False
        elif str(x) != str(y):
            return False
    return True


# ----------------------------------------------------------------------------- snapshots
def snapshot(root):
    snap = {}
    for dirpath, _dirs, files in os.walk(root):
        for f in files:
            p = os.path.join(dirpath, f)
            rel = os.path.relpath(p, root)
            if rel.startswith("tmp" + os.sep) or rel.startswith("_in" + os.sep):
                continue
            try:
                if os.path.islink(p):
                    snap[rel] = ("link", os.readlink(p))
                    continue
                with open(p, "rb") as fh:
                    data = fh.read()
                snap[rel] = (len(data), hashlib.sha256(data).hexdigest()[:16])
            except OSError:
                snap[rel] = ("unreadable", "")
    return snap


# ----------------------------------------------------------------------------- crash injector
class SimFailure(RuntimeError):
    """Injected failure of an ordinary kind (an Exception, as a bug or a full disk would raise)"""


class CrashInjector:
    """sys.settrace based: counts calls into polyply/vermouth code; raises SimCrash at the
    k-th call (k=None: count only).  `stop_at` = (file basename, function) where counting stops."""

    def __init__(self, k=None, stop_at=None, on_crash=None, ordinary=False):
        self.on_crash = on_crash
        self.ordinary = ordinary
        self.k = k
        self.count = 0
        self.stop_at = stop_at
        self.stopped_at = None
        self.where = None
        self.sites = []          # (file, func) of first occurrences
        self._seen = set()
        self.record_sites = False

    def _trace(self, frame, event, arg):
        if event != "call":
            return None
        fn = frame.f_code.co_filename
        if "/polyply/" not in fn and "/vermouth/" not in fn:
            return None
        if frame.f_code.co_flags & 0x2A0:
            # generator / coroutine frames: 'call' also fires on every resumption and on finalisation
            # (where a raised exception would be ignored) - they are not call boundaries
            return None
        base = os.path.basename(fn)
        name = frame.f_code.co_name
        if self.stopped_at is not None:
            return None
        if self.stop_at and (base, name) == self.stop_at:
            self.stopped_at = self.count
            return None
        self.count += 1
        if self.record_sites:
            key = (base, name)
            if key not in self._seen:
                self._seen.add(key)
                self.sites.append((self.count, base, name))
        if self.k is not None and self.count == self.k:
            self.where = f"{base}:{name}"
            if self.on_crash:
                self.on_crash()
            if self.ordinary:
                raise SimFailure(f"injected failure at call {self.k} ({self.where})")
            raise SimCrash(f"injected crash at call {self.k} ({self.where})")
        return None

    def __enter__(self):
        sys.settrace(self._trace)
        return self

    def __exit__(self, *exc):
        sys.settrace(None)
        return False


# ----------------------------------------------------------------------------- operations
class _Capture:
    def __init__(self):
        self.molecule = None
        self.at_writer = None


def _snapshot_molecule(mol):
    atoms = []
    for n in mol.nodes:
        d = mol.nodes[n]
        atoms.append({"atomname": d.get("atomname"), "atype": d.get("atype"), "resid": d.get("resid"),
                      "resname": d.get("resname"), "charge": d.get("charge"), "mass": d.get("mass"),
                      "charge_group": d.get("charge_group")})
    order = {n: i for i, n in enumerate(mol.nodes)}
    inter = {}
    for sec, its in mol.interactions.items():
        lst = []
        for it in its:
            meta = dict(it.meta or {})
            guard = None
            if "ifdef" in meta:
                guard = ("ifdef", meta["ifdef"])
            elif "ifndef" in meta:
                guard = ("ifndef", meta["ifndef"])
            lst.append((canon_atoms(sec, [order[a] for a in it.atoms]), tuple(str(p) for p in it.parameters), guard))
        if lst:
            inter[sec] = lst
    if "impropers" in inter:       # GROMACS has no [ impropers ]: they are written as a second [ dihedrals ] block
        inter.setdefault("dihedrals", []).extend(inter.pop("impropers"))
    return {"atoms": atoms, "inter": inter, "nrexcl": getattr(mol, "nrexcl", None)}


def _write_files(opdir, files, shared=False):
    paths = []
    if shared:
        # all calls of the history read their input files from ONE directory; every file keeps the same modification
        # time whatever is written into it (cp -p, archive extraction, coarse time stamps)
        opdir = os.path.join(os.path.dirname(opdir), "shared")
    for fname, text in files:
        p = os.path.join(opdir, fname)
        os.makedirs(os.path.dirname(p), exist_ok=True)
        with open(p, "w") as fh:
            fh.write(text)
        if shared:
            os.utime(p, (1000000000, 1000000000))
        paths.append(Path(p))
    return paths


def _outpath(op, root):
    """absolute output path, or (op['relpath']) the same file written relative to the current directory,
    optionally through a '..' detour (paths a user types)"""
    full = os.path.join(root, op["out"])
    if not op.get("relpath"):
        return Path(full)
    if op["relpath"] == "symlink_dotdot":
        # <root>/x/lnk is a symbolic link to a SUB-directory of the output directory; 'x/lnk/../name' therefore names
        # the file in the output directory (the parent of the link's target), not 'x/name'
        outdir = os.path.dirname(full)
        os.makedirs(os.path.join(outdir, "deep_sub"), exist_ok=True)
        os.makedirs(os.path.join(root, "x"), exist_ok=True)
        lnk = os.path.join(root, "x", "lnk")
        if not os.path.lexists(lnk):
            os.symlink(os.path.join(outdir, "deep_sub"), lnk)
        return Path(os.path.join(lnk, "..", os.path.basename(full)))
    rel = os.path.relpath(full, os.getcwd())
    if op["relpath"] == "dotdot":
        d, b = os.path.split(rel)
        sub = os.path.basename(os.path.dirname(full))
        rel = os.path.join(d, "..", sub, b) if d else os.path.join("..", os.path.basename(os.getcwd()), b)
    return Path(rel)


def op_gen_params(op, root, opdir, cap):
    """returns kwargs and performs the call; raises whatever gen_params raises"""
    import vermouth
    import polyply.src.gen_itp as gi
    import polyply.src.load_library as ll
    paths = _write_files(opdir, op.get("files", []), shared=bool(op.get("shared_inputs")))
    kw = {"name": op.get("name", "POL"), "outpath": _outpath(op, root)}
    kw["inpath"] = [] if op.get("files_as_library") else paths
    if not kw["inpath"] and not op.get("via_main"):
        del kw["inpath"]          # API use without -f: gen_params' own default applies
    if op.get("lib"):
        kw["lib"] = list(op["lib"])
    if op.get("dsdna"):
        kw["dsdna"] = True
    if op.get("mods"):
        kw["mods"] = [list(m) for m in op["mods"]]
    g = op["graph"]
    if g["kind"] == "seq":
        kw["seq"] = list(g["seq"])
    else:
        sp = os.path.join(opdir, "seq" + g.get("ext", ".json"))
        with open(sp, "w") as fh:
            fh.write(g["text"])
        kw["seq_file"] = Path(sp)
    real_write = vermouth.gmx.itp.write_molecule_itp

    def capture_write(molecule, *a, **k):
        cap.at_writer = _snapshot_molecule(molecule)
        if cap.molecule is None:
            cap.molecule = cap.at_writer
        return real_write(molecule, *a, **k)

    # "the molecule that was built" = what the processor pipeline hands over: gen_params asks find_missing_edges
    # about it right after the last processor
    real_fme = gi.find_missing_edges

    def capture_fme(res_graph, molecule):
        cap.molecule = _snapshot_molecule(molecule)
        return real_fme(res_graph, molecule)

    gi.find_missing_edges = capture_fme

    real_listdir = ll.os.listdir
    perm_seed = op.get("listdir_perm")

    def listdir(path):
        out = sorted(real_listdir(path))
        if perm_seed is not None:
            # (keyed by the directory's NAME: its absolute path contains the scratch root, which differs from run to run)
            random.Random(h64(f"{perm_seed}:{os.path.basename(str(path).rstrip('/'))}")).shuffle(out)
        return out

    class _OS:
        def __getattr__(self, name):
            return getattr(os, name)

    fake_os = _OS()
    fake_os.listdir = listdir
    vermouth.gmx.itp.write_molecule_itp = capture_write
    old_os = ll.os
    ll.os = fake_os
    old_data = ll.DATA_PATH
    if op.get("data_path"):
        ll.DATA_PATH = Path(os.path.join(opdir, op["data_path"]))
    try:
        if op.get("via_main"):
            _run_main(["gen_params", "-name", kw["name"], "-o", str(kw["outpath"])]
                      + (["-f"] + [str(p) for p in kw["inpath"]] if kw.get("inpath") else [])
                      + (["-lib"] + kw["lib"] if kw.get("lib") else [])
                      + (["-dsdna"] if kw.get("dsdna") else [])
                      + (["-seq"] + kw["seq"] if "seq" in kw else ["-seqf", str(kw["seq_file"])]))
        else:
            gi.gen_params(**kw)
    finally:
        vermouth.gmx.itp.write_molecule_itp = real_write
        gi.find_missing_edges = real_fme
        ll.os = old_os
        ll.DATA_PATH = old_data


def _run_main(argv):
    """bin/polyply main() with a pinned sys.argv (argument parsing in the loop)"""
    import runpy
    repo = os.environ.get("VERIF_REPO", "/repo")
    old = sys.argv
    sys.argv = ["polyply"] + argv
    try:
        runpy.run_path(os.path.join(repo, "bin", "polyply"), run_name="__main__")
    except SystemExit as err:
        if err.code not in (0, None):
            raise RuntimeError(f"polyply exited with {err.code}")
    finally:
        sys.argv = old


def op_gen_seq(op, root, opdir):
    from polyply.src.gen_seq import gen_seq
    kw = {"name": op.get("name", "seq"), "outpath": _outpath(op, root),
          "seq": list(op["seq"]), "macro_strings": list(op.get("macros", [])),
          "connects": list(op.get("connects", []))}
    if op.get("from_file"):
        paths = _write_files(opdir, op.get("files", []))
        kw["inpath"] = paths
        kw["from_file"] = list(op["from_file"])
    gen_seq(**kw)


def op_gen_coords(op, root, opdir):
    from polyply.src.gen_coords import gen_coords
    from gen import topgen
    files = topgen.render_top(op["spec"])
    _write_files(opdir, list(files.items()))
    kw = {"toppath": Path(os.path.join(opdir, "system.top")), "outpath": _outpath(op, root),
          "name": "verif"}
    if op["opts"].get("box") is not None:
        kw["box"] = np.array(op["opts"]["box"], dtype=float)
    if op["opts"].get("density") is not None:
        kw["density"] = op["opts"]["density"]
    if op.get("coord_text"):
        _write_files(opdir, [("input.gro", op["coord_text"])])
        kw["coordpath"] = Path(os.path.join(opdir, "input.gro"))
        if op.get("build_res"):
            kw["build_res"] = list(op["build_res"])
    if op.get("build_text"):
        _write_files(opdir, [("opts.bld", op["build_text"])])
        kw["build"] = [Path(os.path.join(opdir, "opts.bld"))]
    random.seed(op.get("seed", 1))
    np.random.seed(op.get("seed", 1))
    gen_coords(**kw)


# ----------------------------------------------------------------------------- round trip (C11)
def exp_first_type(cap):
    return cap.molecule["atoms"][0]["atype"] if cap.molecule and cap.molecule["atoms"] else "P0"


def roundtrip_check(op, root, cap, atypes, requested_graph, log_msgs):
    """reads the written .itp back with polyply's own topology reader and compares it with the
    molecule handed to the writer.  returns list of (clause, msg)"""
    from polyply.src.topology import Topology
    import networkx as nx
    out = os.path.join(root, op["out"])
    viols = []
    if not os.path.exists(out):
        return [("written", f"gen_params returned but {op['out']} does not exist")]
    if cap.molecule is None:
        return [("written", "gen_params returned without handing a molecule to the writer")]
    tdir = tempfile.mkdtemp(prefix="rt_", dir=os.path.join(root, "tmp"))
    name = op.get("name", "POL")
    decoy = bool(op.get("read_with_decoy_in_cwd"))
    top = []
    if op.get("read_with_defines"):
        # the reading topology #defines the tags that guard interactions of the molecule (a run with -DFLEXIBLE):
        # what the reader returns is the molecule with its guards, whatever is defined
        tags = sorted({gd[1] for its in cap.molecule["inter"].values() for (_a, _p, gd) in its if gd})
        top += [f"#define {t}" for t in tags] + ["#define POSRES"]
    top += ["[ defaults ]", "1 1 no 1.0 1.0", "[ atomtypes ]"]
    seen = set()
    for a in cap.molecule["atoms"]:
        if a["atype"] not in seen:
            seen.add(a["atype"])
            top.append(f"{a['atype']} 45.0 0.0 A 0.3 1.0")
    old_cwd = os.getcwd()
    if decoy:
        # the wrapper sits next to the generated file and includes it by its bare name; the process works in another
        # directory that holds a different file of the same name (a left-over of an earlier run)
        top += [f'#include "{os.path.basename(out)}"', "[ system ]", "rt", "[ molecules ]", f"{name} 1"]
        tp = os.path.join(os.path.dirname(os.path.abspath(out)), "rt_wrapper.top")
        with open(os.path.join(tdir, os.path.basename(out)), "w") as fh:
            fh.write(f"[ moleculetype ]\n{name} 1\n[ atoms ]\n1 {exp_first_type(cap)} 1 DEC DC 1 0.0 1.0\n")
        os.chdir(tdir)
    elif op.get("read_indirect"):
        # system.top -> molecules/all.itp -> <generated file> (a copy, next to all.itp, included by its bare name);
        # a different file of the same name lies next to the topology itself
        base = os.path.basename(out)
        os.makedirs(os.path.join(tdir, "molecules"), exist_ok=True)
        shutil.copy(out, os.path.join(tdir, "molecules", base))
        with open(os.path.join(tdir, "molecules", "all.itp"), "w") as fh:
            fh.write(f'#include "{base}"\n')
        with open(os.path.join(tdir, base), "w") as fh:
            fh.write(f"[ moleculetype ]\n{name} 1\n[ atoms ]\n1 {exp_first_type(cap)} 1 DEC DC 1 0.0 1.0\n")
        top += ['#include "molecules/all.itp"', "[ system ]", "rt", "[ molecules ]", f"{name} 1"]
        tp = os.path.join(tdir, "rt.top")
    else:
        top += [f'#include "{os.path.abspath(out)}"']
        if op.get("read_with_case_decoy") and name.lower() != name:
            # another moleculetype whose name differs only in case, defined AFTER the generated one
            top += ["[ moleculetype ]", f"{name.lower()} 1", "[ atoms ]", f"1 {exp_first_type(cap)} 1 DEC DC 1 0.0 1.0"]
        top += ["[ system ]", "rt", "[ molecules ]", f"{name} 1"]
        tp = os.path.join(tdir, "rt.top")
    with open(tp, "w") as fh:
        fh.write("\n".join(top) + "\n")
    try:
        topo = Topology.from_gmx_topfile(tp, "rt")
    except Exception as err:
        return [("atoms", f"polyply's topology reader cannot read the generated file: {type(err).__name__}: {err}")]
    finally:
        os.chdir(old_cwd)
        if decoy:
            try:
                os.remove(tp)
            except OSError:
                pass
        shutil.rmtree(tdir, ignore_errors=True)
    mm = topo.molecules[0]
    mol = mm.molecule
    got_atoms = [mol.nodes[n] for n in mol.nodes]
    exp_atoms = cap.molecule["atoms"]
    if len(got_atoms) != len(exp_atoms):
        return [("atoms", f"file has {len(got_atoms)} atoms, built molecule has {len(exp_atoms)}")]
    for i, (g, e) in enumerate(zip(got_atoms, exp_atoms)):
        for key in ("atomname", "atype", "resid", "resname"):
            if g.get(key) != e.get(key):
                viols.append(("atoms", f"atom {i + 1}: {key} read back as {g.get(key)!r}, built {e.get(key)!r}"))
                break
        for key in ("charge", "mass"):
            ev, gv = e.get(key), g.get(key)
            if ev is None:
                if gv is not None:
                    viols.append(("atoms", f"atom {i + 1}: built without a {key} but read back with {key} {gv!r}"))
                    break
                continue
            if gv is None or abs(float(gv) - float(ev)) > 1e-6:
                viols.append(("atoms", f"atom {i + 1}: {key} read back as {gv!r}, built {ev!r}"))
                break
        if viols:
            return viols
    order = {n: i for i, n in enumerate(mol.nodes)}
    got_inter = {}
    for sec, its in mol.interactions.items():
        for it in its:
            meta = dict(it.meta or {})
            guard = None
            if "ifdef" in meta:
                guard = ("ifdef", meta["ifdef"])
            elif "ifndef" in meta:
                guard = ("ifndef", meta["ifndef"])
            got_inter.setdefault(sec, []).append((canon_atoms(sec, [order[a] for a in it.atoms]),
                                                  tuple(str(p) for p in it.parameters), guard))
    if "impropers" in got_inter:
        got_inter.setdefault("dihedrals", []).extend(got_inter.pop("impropers"))
    exp_inter = cap.molecule["inter"]
    for sec in sorted(set(exp_inter) | set(got_inter)):
        exp = list(exp_inter.get(sec, []))
        got = list(got_inter.get(sec, []))
        unmatched = []
        for (atoms, params, guard) in exp:
            hit = None
            for j, (ga, gp, gg) in enumerate(got):
                if ga == atoms and _params_equal(params, gp):
                    hit = j
                    if gg == guard:
                        break
            if hit is None:
                unmatched.append((atoms, params, guard))
                continue
            ga, gp, gg = got.pop(hit)
            if gg != guard:
                viols.append(("guards", f"[{sec}] {tuple(a + 1 for a in atoms)} written under guard {guard}, "
                                        f"read back under {gg}"))
        if unmatched:
            a, p, gd = unmatched[0]
            viols.append(("interactions", f"[{sec}] {tuple(x + 1 for x in a)} {p} of the built molecule is not in the "
                                          f"file as read back ({len(unmatched)} missing, {len(got)} unexpected)"))
        elif got:
            a, p, gd = got[0]
            viols.append(("interactions", f"[{sec}] {tuple(x + 1 for x in a)} {p} read back from the file is not in "
                                          f"the built molecule ({len(got)} unexpected)"))
        if viols:
            return viols
    # residue graph
    missing_link = any("Missing a link" in m for m in log_msgs)
    if requested_graph is not None and not missing_link:
        req = nx.Graph()
        for i, rn in enumerate(requested_graph["resnames"]):
            req.add_node(i, resname=rn, resid=i + requested_graph.get("resid_start", 1))
        req.add_edges_from(requested_graph["edges"])
        rec = nx.Graph()
        for n in mm.nodes:
            rec.add_node(n, resname=mm.nodes[n]["resname"], resid=mm.nodes[n]["resid"])
        rec.add_edges_from(mm.edges)
        nm = lambda a, b: a["resname"] == b["resname"] and a["resid"] == b["resid"]
        if not nx.is_isomorphic(req, rec, node_match=nm):
            # which requested residue pairs are joined in the built molecule by no bond/constraint/virtual site
            # but only by another interaction (e.g. an angle of a multi-residue link)?
            resid_of = [a["resid"] for a in exp_atoms]
            bonded = set()
            other = set()
            for sec, its in exp_inter.items():
                for (atoms, params, guard) in its:
                    rs = {resid_of[a] for a in atoms}
                    pairs = {frozenset((x, y)) for x in rs for y in rs if x != y}
                    if sec in ("bonds", "constraints") or sec.startswith("virtual_sites"):
                        bonded |= pairs
                    else:
                        other |= pairs
            start = requested_graph.get("resid_start", 1)
            req_pairs = {frozenset((a + start, b + start)) for a, b in requested_graph["edges"]}
            nonbond_only = sorted(tuple(sorted(p)) for p in req_pairs if p not in bonded and p in other)
            unexplained = sorted(tuple(sorted(p)) for p in req_pairs if p not in bonded and p not in other)
            viols.append(("resgraph", f"residue graph recovered from the file ({rec.number_of_nodes()} residues, "
                                      f"{rec.number_of_edges()} edges) is not isomorphic to the requested one "
                                      f"({req.number_of_nodes()}, {req.number_of_edges()}) although no missing link was "
                                      f"reported; residue pairs joined only by non-bond interactions: {nonbond_only[:4]}",
                          {"nonbond_only_pairs": len(nonbond_only), "unexplained_pairs": len(unexplained)}))
    return viols


# ----------------------------------------------------------------------------- history executor
class _Log(logging.Handler):
    def __init__(self):
        super().__init__(level=logging.DEBUG)
        self.msgs = []

    def emit(self, record):
        try:
            self.msgs.append(record.getMessage())
        except Exception:
            self.msgs.append(str(record.msg))


def exec_history(hist):
    """Run in a fresh child.  hist: {"ops": [...], "roundtrip": bool}.  Returns result dict."""
    os.environ["TQDM_DISABLE"] = "1"
    import warnings
    warnings.filterwarnings("ignore")
    scratch = os.environ.get("VERIF_SCRATCH") or tempfile.gettempdir()
    root = tempfile.mkdtemp(prefix="vwc_", dir=scratch)
    os.makedirs(os.path.join(root, "tmp"))
    os.makedirs(os.path.join(root, "_in"))
    os.environ["TMPDIR"] = os.path.join(root, "tmp")
    tempfile.tempdir = os.path.join(root, "tmp")
    sys.argv = ["polyply", "verif"]
    results = []
    plog = logging.getLogger("polyply")
    vlog = logging.getLogger("vermouth")
    devnull = open(os.devnull, "w")
    old_out, old_err = sys.stdout, sys.stderr
    sys.stdout = devnull
    sys.stderr = devnull
    try:
        for i, op in enumerate(hist["ops"]):
            opdir = os.path.join(root, "_in", f"op{i}")
            os.makedirs(opdir)
            for rel, content in op.get("pre_files", []):
                p = os.path.join(root, rel)
                os.makedirs(os.path.dirname(p), exist_ok=True)
                with open(p, "w") as fh:
                    fh.write(content)
            for link, target in op.get("pre_links", []):
                lp = os.path.join(root, link)
                os.makedirs(os.path.dirname(lp), exist_ok=True)
                if not os.path.lexists(lp):
                    os.symlink(target, lp)           # target relative to the link's directory
            if op.get("cwd"):
                os.makedirs(os.path.join(root, op["cwd"]), exist_ok=True)
                os.chdir(os.path.join(root, op["cwd"]))
            else:
                os.chdir(root)
            if os.path.dirname(op["out"]):
                os.makedirs(os.path.join(root, os.path.dirname(op["out"])), exist_ok=True)
            saved_env = {}
            for key, val in (op.get("env") or {}).items():
                saved_env[key] = os.environ.get(key)
                os.environ[key] = val
            before = snapshot(root)
            cap = _Capture()
            handler = _Log()
            plog.addHandler(handler)
            old_level = plog.level
            plog.setLevel(logging.DEBUG)
            res = {"i": i, "op": op["op"], "status": "ok"}
            inj = None
            try:
                k = op.get("crash_at")
                count_only = op.get("count_calls")
                stop = tuple(op["stop_at"]) if op.get("stop_at") else None
                if k is not None or count_only:
                    def _instant(before=before):
                        now = snapshot(root)
                        res["instant"] = {"created": sorted(set(now) - set(before)),
                                          "removed": sorted(set(before) - set(now)),
                                          "modified": sorted(x for x in now if x in before and now[x] != before[x])}
                    inj = CrashInjector(k=k, stop_at=stop, on_crash=_instant if op.get("snapshot_at_crash") else None,
                                        ordinary=op.get("crash_exc") == "ordinary")
                    inj.record_sites = bool(count_only)
                    with inj:
                        _dispatch(op, root, opdir, cap)
                else:
                    _dispatch(op, root, opdir, cap)
            except (SimCrash, SimFailure) as err:
                res["status"] = "crash"
                res["where"] = inj.where if inj else None
            except BaseException as err:       # noqa - classify everything polyply can raise
                res["status"] = "exc:" + type(err).__name__
                if inj is not None and inj.where is not None and inj.ordinary:
                    # the injected ordinary failure came back wrapped in another exception (parsers re-raise as IOError)
                    res["status"] = "crash"
                res["error"] = f"{type(err).__name__}: {str(err)[:300]}"
                tb = traceback.extract_tb(err.__traceback__)
                for fr in reversed(tb):
                    if "/polyply/" in fr.filename or "/vermouth/" in fr.filename:
                        res["where"] = f"{os.path.basename(fr.filename)}:{fr.name}:{fr.lineno}"
                        break
            finally:
                sys.settrace(None)
                plog.removeHandler(handler)
                plog.setLevel(old_level)
                os.chdir(root)
                for key, val in saved_env.items():
                    if val is None:
                        os.environ.pop(key, None)
                    else:
                        os.environ[key] = val
            if inj is not None:
                res["fired_where"] = inj.where
                res["calls"] = inj.count
                res["calls_before_stop"] = inj.stopped_at
                if inj.record_sites:
                    res["sites"] = inj.sites
            after = snapshot(root)
            res["created"] = sorted(set(after) - set(before))
            res["removed"] = sorted(set(before) - set(after))
            res["modified"] = sorted(k for k in after if k in before and after[k] != before[k])
            res["log_warnings"] = [m for m in handler.msgs if "Missing a link" in m][:5]
            out = os.path.join(root, op["out"])
            if os.path.exists(out):
                try:
                    with open(out) as fh:
                        res["out_text"] = fh.read()
                except OSError:
                    res["out_text"] = None
            else:
                res["out_text"] = None
            if op.get("rm_outdir_after") and os.path.dirname(op["out"]):
                res["_rm_outdir"] = os.path.join(root, os.path.dirname(op["out"]))
            res["backups"] = {}
            d = os.path.dirname(out) or root
            base = os.path.basename(out)
            for f in sorted(os.listdir(d)):
                if f.startswith("#" + base + "."):
                    try:
                        with open(os.path.join(d, f)) as fh:
                            res["backups"][f] = fh.read()
                    except OSError:
                        res["backups"][f] = None          # e.g. a dangling link that was moved aside
            res["out_is_link"] = os.path.islink(out)
            res["stray_tmp"] = sorted(f for f in os.listdir(root) if f not in ("tmp", "_in") and
                                      (f.startswith("tmp") or f.endswith(".tmp")))
            if hist.get("roundtrip") and op["op"] == "gen_params" and res["status"] == "ok":
                try:
                    rt = roundtrip_check(op, root, cap, None, op.get("resgraph"), handler.msgs)
                except Exception as err:
                    rt = [("harness", f"roundtrip oracle failed: {type(err).__name__}: {err} "
                                      f"{traceback.format_exc()[-600:]}")]
                res["roundtrip"] = rt
            rmdir = res.pop("_rm_outdir", None)
            if rmdir and os.path.isdir(rmdir):
                # the directory this call wrote into is removed before the next call (a temporary working directory)
                shutil.rmtree(rmdir, ignore_errors=True)
            results.append(res)
        # state of the deferred writer queue after the history
        try:
            from vermouth.file_writer import DeferredFileWriter
            q = getattr(DeferredFileWriter(), "open_files", None)
            pending = len(q) if q is not None else None
        except Exception:
            pending = None
        return {"ops": results, "pending_deferred": pending}
    finally:
        sys.stdout, sys.stderr = old_out, old_err
        devnull.close()
        os.chdir("/")
        shutil.rmtree(root, ignore_errors=True)


def _dispatch(op, root, opdir, cap):
    if op.get("exdev"):
        # fault: the temporary directory is on another file system than the output directory, so the publishing
        # rename fails with EXDEV and shutil.move falls back to copy + delete
        import errno
        real_rename = os.rename
        tmpdir = os.path.join(root, "tmp")

        def rename(src, dst, *a, **k):
            if str(src).startswith(tmpdir) and not str(dst).startswith(tmpdir):
                raise OSError(errno.EXDEV, "Invalid cross-device link (injected)")
            return real_rename(src, dst, *a, **k)

        os.rename = rename
        try:
            return _dispatch(dict(op, exdev=False), root, opdir, cap)
        finally:
            os.rename = real_rename
    if op.get("move_fails"):
        # fault: the move that publishes the finished temporary file fails once with a transient OSError (ESTALE on a
        # network file system).  Nothing was published: the call must fail, or - if it retries - end with the file
        import errno
        import vermouth.file_writer as fw
        real_shutil = fw.shutil
        state = {"left": 1}

        class _Sh:
            def __getattr__(self, name):
                return getattr(real_shutil, name)

            def move(self, src, dst, *a, **k):
                if state["left"] > 0 and str(src).startswith(os.path.join(root, "tmp")):
                    state["left"] -= 1
                    raise OSError(errno.ESTALE, "Stale file handle (injected)")
                return real_shutil.move(src, dst, *a, **k)

        fw.shutil = _Sh()
        try:
            return _dispatch(dict(op, move_fails=False), root, opdir, cap)
        finally:
            fw.shutil = real_shutil
    if op["op"] == "gen_params":
        op_gen_params(op, root, opdir, cap)
    elif op["op"] == "gen_seq":
        op_gen_seq(op, root, opdir)
    elif op["op"] == "gen_coords":
        op_gen_coords(op, root, opdir)
    else:
        raise ValueError(op["op"])

"""World A - gen_coords end to end under a seeded scheduler.

Real code: everything of polyply/vermouth/scipy.  Seams (monkeypatches, removed in
`finally`): RNG seeding, placement outcome (RandomWalk.update_positions / _is_overlap),
optimiser verdict (generate_templates.optimize_geometry), orientation result
(backmap's scipy.optimize.minimize), engine mutators (recorder + reference model).
Oracles: C03 C04 C05 C06 C07 C15 C17 (+ C16 shadow).
"""
import logging
import math
import os
import random
import shutil
import tempfile
import types
from pathlib import Path

import networkx as nx
import numpy as np

from simkit.core import HarnessError, Recorder, SimAbort, SimCrash, Tape, Violation, h64
from worlds.engine_world import EngineModel
from gen import topgen
from oracles import final_state

_REAL = {}


class _Ctx:
    """per-run mutable state shared by the seams"""

    def __init__(self, job, rec, tape, sysrng):
        self.job = job
        self.rec = rec
        self.tape = tape
        self.sysrng = sysrng
        self.viols = []
        self.probes = {}
        self.faults = {}
        self.model = None            # EngineModel
        self.engine = None
        self.eng_molecules = None    # list the engine is indexed over
        self.bs = None               # BuildSystem instance
        self.topology = None
        self.build = {}              # (mol,node) -> build flag at build start
        self.supplied = {}           # (mol,node) -> xyz supplied
        self.sizes = {}              # (mol,node) -> size
        self.accepted = set()
        self.accepted_pos = {}
        self.cur_attempt = None      # dict(mol, failed_before)
        self.pending_failed = None   # mol idx whose failed attempt must have been cleaned
        self.failed_attempts = {}    # mol -> count
        self.in_step = None          # (cur, prev) while inside update_positions
        self.force_reject_step = False
        self.update_calls = 0
        self.update_cap = None
        self.cand_calls = 0
        self.start_calls = 0
        self.start_cap = None
        self.overlap_seen = 0
        self.attempt_grows = 0
        self.attempt_fail_after = None
        self.added = set()
        self.ligated = {}            # (topology molecule index, node added to the host) -> (ligand molecule, node)
        self.grown_from = {}
        self.ignored_mols = set()
        self.touched = set()
        self.cand_cap = None
        self.post_tape_updates = 0
        self.building = False
        self.nrexcl_nb = {}
        self.opt_calls = {}
        self.opt_forced_fail_streak = 0
        self.templates_before = None
        self.log_records = []
        self.stage = "init"
        self.grid = None
        self.orient_forced = 0

    def probe(self, name, n=1):
        self.probes[name] = self.probes.get(name, 0) + n

    def fault(self, name, n=1):
        self.faults[name] = self.faults.get(name, 0) + n

    def fail(self, prop, clause, msg, **facts):
        # keep the first violation per (property, clause)
        for v in self.viols:
            if v["property"] == prop and v["clause"] == clause:
                return
        base = {"partially_supplied": self._partially_supplied_cur(),
                "failed_attempt_before": bool(self.cur_attempt and self.failed_attempts.get(self.cur_attempt["mol"])),
                "ignored_present": bool(self.job["opts"].get("ignore"))}
        base.update(facts)
        self.viols.append(Violation(prop, clause, msg, seq=self.rec.seq, facts=base).to_json())
        if prop == "C05" and self.ignored_mols and clause in ("step", "force", "floor"):
            # the placement rules are broken for a built molecule while other molecules are ignored
            self.fail("C04", "ignored.no-disturb", f"with ignored molecules present: {msg}", ignored_present=True)

    def _partially_supplied_cur(self):
        if not self.cur_attempt:
            return False
        m = self.cur_attempt["mol"]
        flags = [b for (mm, _), b in self.build.items() if mm == m]
        return any(flags) and not all(flags)


CTX = None


# ----------------------------------------------------------------------------- seams
def _install(ctx):
    import polyply.src.random_walk as rw
    import polyply.src.nonbond_engine as nbe
    import polyply.src.build_system as bsm
    import polyply.src.generate_templates as gt
    import polyply.src.backmap as bm
    import polyply.src.persistence as pers

    saved = []

    def patch(obj, name, new):
        saved.append((obj, name, obj.__dict__[name] if name in obj.__dict__ else getattr(obj, name)))
        setattr(obj, name, new)

    for obj, name in ((rw.RandomWalk, "update_positions"), (rw.RandomWalk, "_is_overlap"),
                      (rw.RandomWalk, "run_molecule"), (rw.RandomWalk, "_rewind"),
                      (nbe.NonBondEngine, "add_positions"), (nbe.NonBondEngine, "remove_positions"),
                      (nbe.NonBondEngine, "concatenate_trees"), (nbe.NonBondEngine, "from_topology"),
                      (bsm.BuildSystem, "run_system"), (bsm.BuildSystem, "_compose_system"),
                      (gt, "optimize_geometry"), (bm, "scipy")):
        if not hasattr(obj, name):
            raise HarnessError(f"seam missing: {obj}.{name}")

    # ---- RandomWalk.update_positions
    real_update = rw.RandomWalk.update_positions

    def update_positions(self, vector_bundle, current_node, prev_node):
        ctx.update_calls += 1
        if ctx.update_cap is not None and ctx.update_calls > ctx.update_cap:
            raise SimAbort("update_positions cap exceeded")
        if ctx.tape.exhausted():
            ctx.post_tape_updates += 1
        mol = self.mol_idx
        ctx.rec.emit("grow", mol=mol, cur=current_node, prev=prev_node)
        _oracle_grow(ctx, self, current_node, prev_node)
        t = ctx.tape.next("step")
        if ctx.attempt_fail_after is not None and ctx.attempt_grows >= ctx.attempt_fail_after:
            t = 1      # scripted failure of the whole attempt: every further step fails until it is abandoned
            ctx.fault("attempt_forced_fail_step")
        if t == 1:
            ctx.fault("step_forced_fail")
            ctx.rec.emit("grown", r="forced_fail")
            ctx.rec.symbol("F")
            return False
        ctx.in_step = (current_node, prev_node)
        ctx.force_reject_step = (t == 2)
        if t == 2:
            ctx.fault("step_all_candidates_rejected")
        try:
            ok = real_update(self, vector_bundle, current_node, prev_node)
        finally:
            ctx.in_step = None
            ctx.force_reject_step = False
        if ok:
            ctx.attempt_grows += 1
            ctx.rec.emit("grown", r="ok")
            ctx.rec.symbol("G")
        else:
            ctx.rec.emit("grown", r="exhausted" if t == 2 else "natural_fail")
            ctx.rec.symbol("E" if t == 2 else "N")
            if t != 2:
                ctx.probe("natural_step_fail")
        return ok

    patch(rw.RandomWalk, "update_positions", update_positions)

    # ---- RandomWalk._is_overlap
    real_overlap = rw.RandomWalk._is_overlap

    def _is_overlap(self, point, node, *args, **kwargs):
        # whatever the caller passes is handed on unchanged (the seam must not pin the default of the real function);
        # the shadow judges with the exclusion range the caller asked for, 1 (bonded neighbours) when it asked for none
        nrexcl = args[0] if args else kwargs.get("nrexcl", 1)
        if ctx.in_step is None:
            ctx.start_calls += 1
            if ctx.start_cap is not None and ctx.start_calls > ctx.start_cap:
                raise SimAbort("start attempt cap exceeded")
            t = ctx.tape.next("start")
            if t:
                ctx.fault("start_forced_reject")
                ctx.rec.emit("start_reject", mol=self.mol_idx, forced=1)
                ctx.rec.symbol("s")
                return True
            res = real_overlap(self, point, node, *args, **kwargs)
            if res:
                ctx.probe("natural_start_reject")
                ctx.rec.symbol("n")
            return res
        ctx.cand_calls += 1
        if ctx.cand_cap is not None and ctx.cand_calls > ctx.cand_cap:
            raise SimAbort("candidate evaluation cap exceeded")
        if ctx.force_reject_step:
            return True
        t = ctx.tape.next("overlap")
        if t:
            ctx.fault("candidate_forced_reject")
            return True
        res = real_overlap(self, point, node, *args, **kwargs)
        _shadow_overlap(ctx, self, np.asarray(point, dtype=float), node, nrexcl, res)
        return res

    patch(rw.RandomWalk, "_is_overlap", _is_overlap)

    # ---- RandomWalk.run_molecule (one attempt)
    real_run_molecule = rw.RandomWalk.run_molecule

    def run_molecule(self, meta_molecule):
        mol = self.mol_idx
        # attempts that neither place nor test anything do not consume the other caps: bound them as well
        ctx.attempt_calls = getattr(ctx, "attempt_calls", 0) + 1
        if ctx.attempt_calls > 3000:
            raise SimAbort("attempt cap exceeded (no progress)")
        _oracle_attempt_begin(ctx, self, meta_molecule)
        ctx.cur_attempt = {"mol": mol, "proc": self}
        ctx.attempt_grows = 0
        ctx.attempt_fail_after = None
        if ctx.tape.next("attempt"):
            nbuild = sum(1 for n in meta_molecule.nodes if meta_molecule.nodes[n].get("build", True))
            ctx.attempt_fail_after = nbuild // 2
            ctx.fault("attempt_forced_fail")
        ctx.rec.emit("attempt_begin", mol=mol, start=np.asarray(self.start, dtype=float),
                     start_node=self.start_node)
        try:
            out = real_run_molecule(self, meta_molecule)
        finally:
            pass
        ctx.rec.emit("attempt_end", mol=mol, ok=bool(self.success))
        if self.success:
            ctx.rec.symbol("A")
            _oracle_accept(ctx, mol, meta_molecule)
        else:
            ctx.rec.symbol("X")
            ctx.failed_attempts[mol] = ctx.failed_attempts.get(mol, 0) + 1
            ctx.pending_failed = mol
            ctx.probe("attempt_abandoned")
        return out

    patch(rw.RandomWalk, "run_molecule", run_molecule)

    # ---- RandomWalk._rewind
    real_rewind = rw.RandomWalk._rewind

    def _rewind(self, current_step):
        before = [n for _, n in self.placed_nodes]
        res = real_rewind(self, current_step)
        ctx.rec.emit("rewind", mol=self.mol_idx, to=res, placed_before=before,
                     placed_after=[n for _, n in self.placed_nodes])
        ctx.rec.symbol("R")
        ctx.probe("rewind_taken")
        return res

    patch(rw.RandomWalk, "_rewind", _rewind)

    # ---- engine mutators
    real_add = nbe.NonBondEngine.add_positions

    def add_positions(self, point, mol_idx, node_key, start=True):
        if self is ctx.engine:
            _oracle_add(ctx, np.array(point, dtype=float), mol_idx, node_key, bool(start))
        real_add(self, point, mol_idx, node_key, start=start)
        if self is ctx.engine:
            ctx.model.pos[(mol_idx, node_key)] = np.array(point, dtype=float)
            _shadow_point(ctx, mol_idx, node_key)

    patch(nbe.NonBondEngine, "add_positions", add_positions)

    real_remove = nbe.NonBondEngine.remove_positions

    def remove_positions(self, mol_idx, node_keys):
        node_keys = list(node_keys)
        if self is ctx.engine:
            _oracle_remove(ctx, mol_idx, node_keys)
        real_remove(self, mol_idx, node_keys)
        if self is ctx.engine:
            for n in node_keys:
                ctx.model.pos.pop((mol_idx, n), None)
            for n in node_keys[:3]:
                _shadow_point(ctx, mol_idx, n)

    patch(nbe.NonBondEngine, "remove_positions", remove_positions)

    real_concat = nbe.NonBondEngine.concatenate_trees

    def concatenate_trees(self):
        real_concat(self)
        if self is ctx.engine:
            ctx.rec.emit("concatenate")
            ctx.probe("concatenate")
            _shadow_all(ctx)

    patch(nbe.NonBondEngine, "concatenate_trees", concatenate_trees)

    real_from_top = nbe.NonBondEngine.__dict__["from_topology"].__func__

    def from_topology(cls, molecules, topology, box, *args, **kwargs):
        eng = real_from_top(cls, molecules, topology, box, *args, **kwargs)
        if ctx.building and ctx.engine is None:
            ctx.engine = eng
            ctx.eng_molecules = list(molecules)
            _capture_start(ctx, eng, molecules, topology, box)
        return eng

    patch(nbe.NonBondEngine, "from_topology", classmethod(from_topology))

    # ---- BuildSystem
    real_run_system = bsm.BuildSystem.run_system

    def run_system(self, molecules):
        ctx.bs = self
        ctx.topology = self.topology
        ctx.building = True
        ctx.stage = "build"
        ctx.rec.emit("stage", name="build")
        # -lig: nodes added to a host molecule for its ligands (removed again after the build)
        for ti, mol in enumerate(molecules):
            for n in mol.nodes:
                if "ligated" in mol.nodes[n]:
                    ctx.ligated[(ti, n)] = tuple(mol.nodes[n]["ligated"])
        try:
            out = real_run_system(self, molecules)
            if ctx.job.get("rerun_build"):
                # the same builder is asked a second time for the (now complete) system, as a two-stage script
                # would do: nothing is left to build, so nothing may be placed, moved or removed
                ctx.rec.emit("stage", name="rebuild")
                ctx.stage = "rebuild"
                ctx.probe("second_run_system_on_complete_system")
                out = real_run_system(self, molecules)
            return out
        finally:
            ctx.building = False

    patch(bsm.BuildSystem, "run_system", run_system)

    real_compose = bsm.BuildSystem._compose_system

    def _compose_system(self, molecules):
        out = real_compose(self, molecules)
        _oracle_compose_end(ctx, self, molecules)
        return out

    patch(bsm.BuildSystem, "_compose_system", _compose_system)

    # ---- template optimiser verdict
    real_opt = gt.optimize_geometry

    def optimize_geometry(block, coords, inter_types=[], **kw):
        ok, out = real_opt(block, coords, inter_types, **kw)
        key = "dihedrals" in inter_types
        if key:  # one tape decision per (pair of) optimisation round(s): on the final verdict
            t = ctx.tape.next("opt")
            if t:
                ctx.fault("optimiser_forced_fail")
                ctx.opt_forced_fail_streak += 1
                ctx.rec.emit("opt", forced_fail=1)
                return False, out
            ctx.opt_forced_fail_streak = 0
            if not ok:
                ctx.probe("optimiser_natural_fail")
            ctx.rec.emit("opt", ok=bool(ok))
        resname = None
        try:
            resname = block.nodes[list(block.nodes)[0]].get("resname")
        except Exception:
            pass
        ctx.opt_calls[resname] = ctx.opt_calls.get(resname, 0) + 1
        return ok, out

    patch(gt, "optimize_geometry", optimize_geometry)

    # ---- orientation result
    real_scipy = bm.scipy
    ANGLES = [None, (0.0, 0.0, 0.0), (math.pi / 2, 0.0, 0.0), (0.0, -math.pi / 2, math.pi),
              (math.pi, math.pi, math.pi), (1e3, -2e3, 3e3), (1e-9, 1e-9, -1e-9), "random"]

    def fake_minimize(fun, x0, *a, **kw):
        res = real_scipy.optimize.minimize(fun, x0, *a, **kw)
        t = ctx.tape.next("orient")
        if t:
            choice = ANGLES[t % len(ANGLES)]
            if choice == "random":
                r = random.Random(h64(f"{ctx.job['run_seed']}:orient:{ctx.orient_forced}"))
                choice = tuple(r.uniform(-10, 10) for _ in range(3))
            if choice is not None:
                ctx.orient_forced += 1
                ctx.fault("orientation_result_replaced")
                res["x"] = np.array(choice, dtype=float)
        return res

    fake_opt = types.SimpleNamespace(minimize=fake_minimize)
    fake_scipy = types.SimpleNamespace(optimize=fake_opt)
    patch(bm, "scipy", fake_scipy)

    # ---- residue positions handed to the backmapping as integer arrays (value-preserving): legal API input, e.g.
    # centres that lie on a lattice
    real_bm_run = bm.Backmap.run_molecule

    def bm_run_molecule(self, meta_molecule):
        if ctx.job.get("int_positions"):
            for n in meta_molecule.nodes:
                p = meta_molecule.nodes[n].get("position")
                if p is not None:
                    arr = np.asarray(p, dtype=float)
                    if np.all(np.isfinite(arr)) and np.all(arr == np.round(arr)):
                        meta_molecule.nodes[n]["position"] = arr.astype(int)
                        ctx.fault("position_as_integer_array")
        return real_bm_run(self, meta_molecule)

    patch(bm.Backmap, "run_molecule", bm_run_molecule)

    # ---- RNG re-seeding from OS entropy -> from sys stream
    real_np_seed = np.random.seed
    real_py_seed = random.seed

    def np_seed(seed=None):
        if seed is None:
            seed = ctx.sysrng.getrandbits(32)
            ctx.rec.emit("np_seed_none", seed=seed)
            ctx.probe("np_seed_none_answered")
        return real_np_seed(seed)

    def py_seed(a=None, *args, **kw):
        if a is None:
            a = ctx.sysrng.getrandbits(32)
            ctx.rec.emit("py_seed_none", seed=a)
        return real_py_seed(a, *args, **kw)

    patch(np.random, "seed", np_seed)
    patch(random, "seed", py_seed)
    return saved


def _uninstall(saved):
    for obj, name, old in reversed(saved):
        setattr(obj, name, old)


# ----------------------------------------------------------------------------- capture at build start
def _capture_start(ctx, eng, molecules, topology, box):
    sizes = {}
    node_type = {}
    model_sizes = {}
    ign = set(ctx.job["opts"].get("ignore") or [])
    ctx.ignored_mols = {m for m, mol in enumerate(molecules) if mol.mol_name in ign}
    for m, mol in enumerate(molecules):
        if m in ctx.ignored_mols:
            continue
        for n in mol.nodes:
            tname = mol.nodes[n].get("template", mol.nodes[n]["resname"])
            node_type[(m, n)] = tname
            model_sizes[tname] = float(topology.volumes[tname])
            ctx.build[(m, n)] = bool(mol.nodes[n].get("build", True))
    ctx.model = EngineModel(np.array(box, dtype=float), model_sizes, node_type)
    for m, mol in enumerate(molecules):
        if m in ctx.ignored_mols:
            continue
        for n in mol.nodes:
            if "position" in mol.nodes[n]:
                p = np.array(mol.nodes[n]["position"], dtype=float)
                ctx.model.pos[(m, n)] = p
                ctx.supplied[(m, n)] = p.copy()
    ctx.rec.emit("engine", n=len(node_type), supplied=len(ctx.supplied), box=np.array(box, dtype=float))
    nres = len(node_type)
    lanes = ctx.tape.lanes
    nstep = len(lanes.get("step", ())) + len(lanes.get("start", ())) + 8 * len(lanes.get("attempt", ()))
    ctx.update_cap = 60 * nres + 4 * nstep + 1000
    ctx.start_cap = 40 * len(molecules) + 3 * len(lanes.get("start", ())) + 1500
    ctx.cand_cap = 400 * nres + 3 * len(lanes.get("overlap", ())) + 120 * nstep + 5000
    # full-build molecules with all positions are skipped -> accepted from the start
    for m, mol in enumerate(molecules):
        if m not in ctx.ignored_mols and all("position" in mol.nodes[n] for n in mol.nodes):
            ctx.accepted.add(m)
    # neighbour sets (within one residue-graph edge, the node itself included)
    for m, mol in enumerate(molecules):
        for n in mol.nodes:
            ctx.nrexcl_nb[(m, n)] = [n] + list(mol.neighbors(n))
    ctx.grid = np.array(ctx.bs.box_grid, dtype=float) if ctx.bs is not None else None


# ----------------------------------------------------------------------------- per-event oracles
def _mol(ctx, m):
    return ctx.eng_molecules[m]


def _oracle_attempt_begin(ctx, proc, meta_molecule):
    # (C17 ii / C04 v) the previous failed attempt must have been cleaned up completely
    pm = ctx.pending_failed
    if pm is not None:
        _check_clean(ctx, pm, "next attempt begins")
        ctx.pending_failed = None
    m = proc.mol_idx
    if m in ctx.accepted:
        ctx.fail("C17", "accepted.moved", f"a new attempt starts for molecule {m} that was already accepted")


def _check_clean(ctx, m, when):
    left = [n for (mm, n) in ctx.model.pos if mm == m and ctx.build.get((mm, n), True)]
    if left:
        ctx.fail("C17", "retry.clean",
                 f"after a failed attempt of molecule {m} ({when}) generated residues {left[:6]} are still positioned")
    for (mm, n), p in ctx.supplied.items():
        if mm != m:
            continue
        cur = ctx.model.pos.get((mm, n))
        if cur is None or not np.array_equal(cur, p):
            ctx.fail("C04", "retry.keeps-supplied",
                     f"after a failed attempt of molecule {m} ({when}) supplied residue {n} is "
                     f"{'gone' if cur is None else 'moved'}", partially_supplied=True, failed_attempt_before=True)
            ctx.fail("C17", "retry.keeps-supplied",
                     f"after a failed attempt of molecule {m} ({when}) supplied residue {n} is "
                     f"{'gone' if cur is None else 'moved'}", partially_supplied=True, failed_attempt_before=True)
            break


def _oracle_grow(ctx, proc, cur, prev):
    m = proc.mol_idx
    mol = proc.molecule
    if (m, prev) not in ctx.model.pos:
        ctx.fail("C17", "grow.prev", f"molecule {m}: residue {cur} is grown from {prev} which has no position")
    elif not mol.has_edge(cur, prev):
        ctx.fail("C17", "grow.prev", f"molecule {m}: residue {cur} grown from {prev} which is not a neighbour")
    if (m, cur) in ctx.model.pos:
        ctx.fail("C17", "double-add", f"molecule {m}: residue {cur} is grown although it is positioned already")
    # growth-order bookkeeping: generated residues positioned == targets of earlier steps
    try:
        path = list(mol.search_tree.edges)
        idx = path.index((prev, cur))
    except ValueError:
        ctx.fail("C17", "grow.prev", f"molecule {m}: step {prev}->{cur} is not an edge of the growth order")
        return
    expect = {c for (_, c) in path[:idx] if ctx.build.get((m, c), True)}
    root = path[0][0] if path else None
    if root is not None and ctx.build.get((m, root), True):
        expect.add(root)
    have = {n for (mm, n) in ctx.model.pos if mm == m and ctx.build.get((mm, n), True)}
    if have != expect:
        extra = sorted(have - expect, key=str)
        missing = sorted(expect - have, key=str)
        ctx.fail("C17", "grow.leftover",
                 f"molecule {m} step {idx} ({prev}->{cur}): positioned generated residues differ from the growth "
                 f"order: leftover {extra[:6]} missing {missing[:6]}")


def _oracle_add(ctx, xyz, m, node, start):
    rec = ctx.rec
    rec.emit("add", mol=m, node=node, start=int(start), xyz=xyz)
    ctx.added.add((m, node))
    ctx.touched.add((m, node))
    model = ctx.model
    box = model.box
    if (m, node) in model.pos:
        ctx.fail("C17", "double-add", f"residue ({m},{node}) receives a position while it already has one")
    if m in ctx.accepted:
        ctx.fail("C17", "accepted.moved", f"residue ({m},{node}) of an accepted molecule is given a new position")
    if ctx.cur_attempt is None or ctx.cur_attempt["mol"] != m:
        ctx.fail("C17", "accepted.moved", f"residue ({m},{node}) positioned outside an attempt of its molecule")
    if not ctx.build.get((m, node), True):
        ctx.fail("C04", "built.set", f"residue ({m},{node}) was supplied but is generated again")
    # ---- C05
    if not (np.all(np.isfinite(xyz)) and np.all(xyz >= 0) and np.all(xyz <= box)):
        ctx.fail("C05", "inbox", f"residue ({m},{node}) placed at {xyz.tolist()} outside box {box.tolist()}")
        return
    job = ctx.job
    if start:
        rec.symbol("S")
        _check_grid(ctx, xyz, m, node)
    else:
        if ctx.in_step is None or ctx.in_step[0] != node:
            ctx.fail("C17", "grow.prev", f"residue ({m},{node}) added outside its growth step")
            return
        prev = ctx.in_step[1]
        ctx.grown_from[(m, node)] = prev
        ppos = model.pos.get((m, prev))
        if ppos is not None:
            tcur = model.node_type[(m, node)]
            tprev = model.node_type[(m, prev)]
            step = job["opts"].get("step_fudge", 1.0) * 0.5 * (model.sizes[tcur] + model.sizes[tprev])
            d = xyz - ppos
            mi = d - box * np.round(d / box)
            if 2 * step < float(np.min(box)):
                ok = abs(np.linalg.norm(mi) - step) <= 1e-9 * max(1.0, step)
            else:
                ok = False
                ctx.probe("step_longer_than_half_box")
                rng = (-2, -1, 0, 1, 2)
                for sx in rng:
                    for sy in rng:
                        for sz in rng:
                            if abs(np.linalg.norm(d + np.array([sx, sy, sz]) * box) - step) <= 1e-9 * max(1.0, step):
                                ok = True
            if not ok:
                ctx.fail("C05", "step", f"residue ({m},{node}) placed {np.linalg.norm(mi):.9f} nm (min. image) from "
                                        f"({m},{prev}); step length is {step:.9f}")
            if np.linalg.norm(d - mi) > 1e-9:
                ctx.probe("step_wrapped_across_boundary")
    # floor + force against everything positioned
    if model.pos:
        keys = list(model.pos)
        arr = np.array([model.pos[k] for k in keys])
        d = xyz - arr
        d = d - box * np.round(d / box)
        r = np.linalg.norm(d, axis=1)
        j = int(np.argmin(r))
        if r[j] < 0.1 - 1e-9 and keys[j] != (m, node):
            ctx.fail("C05", "floor", f"residue ({m},{node}) placed {r[j]:.6f} nm from positioned residue {keys[j]}")
        excl = ctx.nrexcl_nb.get((m, node), [node])
        kind, vec, info = model.force(xyz, m, node, excl)
        fmax = job["opts"].get("max_force", 5e4)
        if kind == "vec" and np.linalg.norm(vec) > fmax * (1 + 1e-6):
            ctx.fail("C05", "force", f"residue ({m},{node}) accepted with force {np.linalg.norm(vec):.4f} > max {fmax} "
                                     f"({info['pairs']} pairs)", pair_across_boundary=bool(info["across"]))
        if info["pairs"]:
            ctx.probe("placed_with_neighbours_in_cutoff")
        if info["across"]:
            ctx.probe("placed_interacting_across_boundary")


def _check_grid(ctx, xyz, m, node):
    job = ctx.job
    box = ctx.model.box
    if job.get("grid_points") is not None:
        pts = np.array(job["grid_points"], dtype=float)
        if not np.any(np.all(np.abs(pts - xyz) <= 1e-9, axis=1)):
            ctx.fail("C05", "grid", f"start of molecule {m} at {xyz.tolist()} is not a row of the user grid")
        return
    gs = job["opts"].get("grid_spacing", 0.2)
    k = xyz / gs
    if np.any(np.abs(k - np.round(k)) > 1e-6) or np.any(xyz < 0) or np.any(xyz >= box):
        ctx.fail("C05", "grid", f"start of molecule {m} at {xyz.tolist()} is not on the {gs} nm start grid")


def _oracle_remove(ctx, m, nodes):
    ctx.rec.emit("remove", mol=m, nodes=list(nodes))
    ctx.touched.update((m, n) for n in nodes)
    if m in ctx.accepted:
        ctx.fail("C17", "accepted.moved", f"positions of accepted molecule {m} are removed")
    sup = [n for n in nodes if (m, n) in ctx.supplied and (m, n) in ctx.model.pos]
    if sup:
        ctx.fail("C04", "retry.keeps-supplied",
                 f"supplied residues {sup[:6]} of molecule {m} are discarded from the system "
                 f"({'after a failed attempt' if ctx.failed_attempts.get(m) else 'during building'})",
                 partially_supplied=True, failed_attempt_before=bool(ctx.failed_attempts.get(m)))
        ctx.fail("C17", "retry.keeps-supplied",
                 f"supplied residues {sup[:6]} of molecule {m} are discarded from the system",
                 partially_supplied=True, failed_attempt_before=bool(ctx.failed_attempts.get(m)))


def _oracle_accept(ctx, m, meta_molecule):
    ctx.rec.emit("molecule_accepted", mol=m)
    missing = [n for n in meta_molecule.nodes if (m, n) not in ctx.model.pos]
    if missing:
        ctx.fail("C17", "final.once", f"molecule {m} accepted but residues {missing[:6]} have no position")
    ctx.accepted.add(m)
    for n in meta_molecule.nodes:
        if (m, n) in ctx.model.pos:
            ctx.accepted_pos[(m, n)] = ctx.model.pos[(m, n)].copy()
    ctx.cur_attempt = None


def _shadow_point(ctx, m, n):
    """C16 shadow: the engine's public position query agrees with the model."""
    got = np.asarray(ctx.engine.get_point(m, n), dtype=float)
    exp = ctx.model.pos.get((m, n))
    if exp is None:
        if not np.all(np.isinf(got)):
            ctx.fail("C16", "point", f"({m},{n}) removed but engine still reports {got.tolist()}")
    elif not np.array_equal(got, exp):
        ctx.fail("C16", "point", f"({m},{n}) engine reports {got.tolist()} model {exp.tolist()}")


def _shadow_overlap(ctx, proc, point, node, nrexcl, verdict):
    """C16 shadow in world A: the engine's overlap verdict for a candidate equals the reference model's
    (force norm > max force, or a non-excluded residue within 0.1 nm), checked on a sample of the candidates."""
    ctx.overlap_seen += 1
    if nrexcl != 1 or (ctx.overlap_seen % 7 and not ctx.ignored_mols):
        return
    m = proc.mol_idx
    kind, vec, info = ctx.model.force(point, m, node, ctx.nrexcl_nb.get((m, node), [node]))
    if kind == "dontcare":
        return
    fmax = proc.max_force
    if kind == "inf":
        expect = True
    else:
        nrm = float(np.linalg.norm(vec))
        if abs(nrm - fmax) <= 1e-6 * max(1.0, fmax):
            return
        expect = nrm > fmax
    ctx.probe("overlap_verdict_shadowed")
    if bool(verdict) != expect and ctx.ignored_mols:
        # the reference model knows nothing of the ignored molecules: a verdict that differs from it means that they
        # take part in the overlap test of the others
        ctx.fail("C04", "ignored.no-disturb",
                 f"with ignored molecules present the overlap verdict for ({m},{node}) at {np.round(point, 6).tolist()} is "
                 f"{'overlap' if verdict else 'no overlap'}, without them it would be {'overlap' if expect else 'no overlap'}",
                 ignored_present=True)
    if bool(verdict) != expect:
        ctx.fail("C16", "force", f"candidate for ({m},{node}) at {np.round(point, 6).tolist()}: engine says "
                                 f"{'overlap' if verdict else 'no overlap'}, reference model force "
                                 f"{'inf' if kind == 'inf' else np.linalg.norm(vec)} vs limit {fmax} ({info['pairs']} pairs)",
                 pair_across_boundary=bool(info["across"]))


def _shadow_all(ctx):
    eng = ctx.engine
    need = ("positions", "defined_idxs", "position_trees", "nodes_to_gndx")
    if not all(hasattr(eng, a) for a in need):
        return
    g2k = {g: k for k, g in eng.nodes_to_gndx.items()}
    seen = set()
    for idxs, tree in zip(eng.defined_idxs, eng.position_trees):
        if tree.n != len(idxs):
            ctx.fail("C16", "views", "tree size differs from its index list")
            return
        for g in idxs:
            if g in seen or g2k[g] not in ctx.model.pos:
                ctx.fail("C16", "views", f"residue {g2k[g]} stale or listed twice in the search trees")
                # the same fact in C17's words: a residue with more than one registered position, or a discarded one
                # that is still in the system when building ends
                ctx.fail("C17", "final.once", f"residue {g2k[g]} is "
                         + ("registered more than once" if g in seen else "still registered although it was removed")
                         + " in the neighbour engine when building ends")
                return
            seen.add(g)
    if len(seen) != len(ctx.model.pos):
        ctx.fail("C16", "views", "positioned residues missing from the search trees")


def _oracle_compose_end(ctx, bs, molecules):
    ctx.rec.emit("compose_end")
    if ctx.pending_failed is not None:
        _check_clean(ctx, ctx.pending_failed, "building ends")
        ctx.pending_failed = None
    _shadow_all(ctx)
    # (C17 iv) every residue of every built molecule positioned exactly once; model, engine, attribute agree
    for m, mol in enumerate(ctx.eng_molecules):
        if m in ctx.ignored_mols:
            continue
        for n in mol.nodes:
            mp = ctx.model.pos.get((m, n))
            if mp is None:
                ctx.fail("C17", "final.once", f"building ended but residue ({m},{n}) has no position")
                continue
            attr = mol.nodes[n].get("position")
            if attr is None or not np.array_equal(np.asarray(attr, dtype=float), mp):
                ctx.fail("C17", "final.once", f"residue ({m},{n}) attribute position {attr} differs from the "
                                              f"position it was given {mp.tolist()}")
            if (m, n) in ctx.accepted_pos and not np.array_equal(ctx.accepted_pos[(m, n)], mp):
                ctx.fail("C17", "accepted.moved", f"residue ({m},{n}) moved after its molecule was accepted")
            if (m, n) in ctx.supplied and not np.array_equal(ctx.supplied[(m, n)], mp):
                ctx.fail("C04", "atom.kept", f"supplied residue ({m},{n}) moved from {ctx.supplied[(m, n)].tolist()} "
                                             f"to {mp.tolist()}")


# ----------------------------------------------------------------------------- logging capture
class _LogHandler(logging.Handler):
    def __init__(self, ctx):
        super().__init__(level=logging.DEBUG)
        self.ctx = ctx

    def emit(self, record):
        try:
            msg = record.getMessage()
        except Exception:
            msg = str(record.msg)
        self.ctx.log_records.append((record.levelname, msg))


# ----------------------------------------------------------------------------- the run
def _reset_process_state():
    from vermouth.file_writer import DeferredFileWriter
    try:
        DeferredFileWriter().open_files.clear() if hasattr(DeferredFileWriter(), "open_files") else None
    except Exception:
        pass


def write_inputs(job, workdir):
    files = topgen.render_top(job["spec"])
    for fn, txt in files.items():
        with open(os.path.join(workdir, fn), "w") as fh:
            fh.write(txt)
    if job.get("build_spec") is not None or job.get("bld_templates") or job.get("bld_volumes") or job.get("bld_bending"):
        from gen import bldgen
        job = dict(job)
        job["build_file"] = bldgen.render(job.get("build_spec"), job.get("bld_templates"), job.get("bld_volumes"),
                                          job.get("bld_bending"))
    if job.get("build_file"):
        with open(os.path.join(workdir, "opts.bld"), "w") as fh:
            fh.write(job["build_file"])
    if job.get("two_build_files") and (job.get("bld_templates") or job.get("bld_volumes")):
        # -b sizes.bld rest.bld: the sizes in a first file, templates (last) and everything else in a second one
        from gen import bldgen
        with open(os.path.join(workdir, "sizes.bld"), "w") as fh:
            fh.write(bldgen.render(None, None, job.get("bld_volumes"), None) if job.get("bld_volumes") else "")
        with open(os.path.join(workdir, "opts.bld"), "w") as fh:
            fh.write(bldgen.render(job.get("build_spec"), job.get("bld_templates"), None, job.get("bld_bending")))
    if job.get("grid_points") is not None:
        with open(os.path.join(workdir, "grid.dat"), "w") as fh:
            for p in job["grid_points"]:
                fh.write(" ".join(repr(float(x)) for x in p) + "\n")
    if job.get("coord_text") is not None:
        with open(os.path.join(workdir, "input." + job.get("coord_ext", "gro")), "w") as fh:
            fh.write(job["coord_text"])
    if job.get("meta_text") is not None:
        with open(os.path.join(workdir, "input_meta.gro"), "w") as fh:
            fh.write(job["meta_text"])


def gen_coords_kwargs(job, workdir):
    o = job["opts"]
    kw = dict(toppath=Path(workdir) / "system.top", outpath=Path(workdir) / "out.gro", name="verif")
    if o.get("box") is not None:
        kw["box"] = np.array(o["box"], dtype=float)
    if o.get("density") is not None:
        kw["density"] = o["density"]
    for k in ("grid_spacing", "maxiter", "maxiter_random", "step_fudge", "max_force", "nrewind", "bfudge",
              "cycle_tol", "skip_filter"):
        if k in o:
            kw[k] = o[k]
    for k in ("build_res", "ignore", "cycles", "split", "ligands", "start"):
        if o.get(k):
            kw[k] = list(o[k])
    if job.get("build_file") or job.get("build_spec") is not None or job.get("bld_templates") or job.get("bld_volumes") \
            or job.get("bld_bending"):
        kw["build"] = [Path(workdir) / "opts.bld"]
        if job.get("two_build_files") and (job.get("bld_templates") or job.get("bld_volumes")):
            kw["build"] = [Path(workdir) / "sizes.bld", Path(workdir) / "opts.bld"]
    if job.get("grid_points") is not None:
        kw["grid"] = str(Path(workdir) / "grid.dat")
    if job.get("coord_text") is not None:
        if job.get("coord_kind") == "meta":
            kw["coordpath_meta"] = Path(workdir) / "input.gro"
        else:
            kw["coordpath"] = Path(workdir) / ("input." + job.get("coord_ext", "gro"))
    if job.get("meta_text") is not None:
        kw["coordpath_meta"] = Path(workdir) / "input_meta.gro"      # -c and -mc together
    return kw


REJECT_TYPES = (IOError, OSError, NotImplementedError)


class _PreCallTimeout(Exception):
    pass


def _bounded_call(fn, kwargs, seconds=10):
    """earlier calls of a history run without the seams and caps of the observed call: a wall-clock bound keeps a build
    that retries for ever (e.g. unsatisfiable restraints) from stalling the worker.  The earlier call then simply ends
    early - it is part of the history either way."""
    import signal

    def _raise(_sig, _frm):
        raise _PreCallTimeout()

    try:
        old = signal.signal(signal.SIGALRM, _raise)
    except ValueError:            # not in the main thread: no bound available
        return fn(**kwargs)
    signal.setitimer(signal.ITIMER_REAL, seconds)
    try:
        return fn(**kwargs)
    except _PreCallTimeout:
        raise RuntimeError("earlier call stopped after its time bound")
    finally:
        signal.setitimer(signal.ITIMER_REAL, 0)
        signal.signal(signal.SIGALRM, old)


def _pre_call_spec(job, workdir, kw):
    from polyply.src.gen_coords import gen_coords
    from vermouth.file_writer import DeferredFileWriter
    for fn, txt in topgen.render_top(job["pre_spec"]).items():
        with open(os.path.join(workdir, fn), "w") as fh:
            fh.write(txt)
    kw2 = {"toppath": kw["toppath"], "outpath": Path(workdir) / "pre_out.gro", "name": "verif"}
    if "box" in kw:
        kw2["box"] = kw["box"]
    else:
        kw2["density"] = kw.get("density")
    random.seed(54321)
    np.random.seed(54321)
    cwd = os.getcwd()
    os.chdir(workdir)
    try:
        _bounded_call(gen_coords, kw2)
    except Exception:
        try:
            DeferredFileWriter().close()
        except Exception:
            pass
    finally:
        os.chdir(cwd)
        for fn, txt in topgen.render_top(job["spec"]).items():
            p = os.path.join(workdir, fn)
            with open(p, "w") as fh:
                fh.write(txt)
            os.utime(p, (1, 1))


def _pre_call_build(job, workdir, kw):
    """history: an earlier gen_coords call in this process read ANOTHER build file from the same path"""
    from polyply.src.gen_coords import gen_coords
    from vermouth.file_writer import DeferredFileWriter
    path = os.path.join(workdir, "opts.bld")
    real = open(path).read()
    with open(path, "w") as fh:
        fh.write(job["pre_build_text"])
    kw2 = dict(kw)
    kw2["outpath"] = Path(workdir) / "pre_out.gro"
    kw2["maxiter"] = 2
    random.seed(4321)
    np.random.seed(4321)
    cwd = os.getcwd()
    os.chdir(workdir)
    try:
        _bounded_call(gen_coords, kw2)
    except Exception:
        try:
            DeferredFileWriter().close()
        except Exception:
            pass
    finally:
        os.chdir(cwd)
        with open(path, "w") as fh:
            fh.write(real)


def _pre_call(job, workdir, kw):
    from polyply.src.gen_coords import gen_coords
    from vermouth.file_writer import DeferredFileWriter
    inp = os.path.join(workdir, "input.gro")
    with open(inp, "w") as fh:
        fh.write(job["pre_coord_text"])
    kw2 = dict(kw)
    kw2["outpath"] = Path(workdir) / "pre_out.gro"
    for k in ("build_res", "ignore"):
        kw2.pop(k, None)
    random.seed(12345)
    np.random.seed(12345)
    cwd = os.getcwd()
    os.chdir(workdir)
    try:
        _bounded_call(gen_coords, kw2)
    except Exception:
        try:
            DeferredFileWriter().close()
        except Exception:
            pass
    finally:
        os.chdir(cwd)
        with open(inp, "w") as fh:
            fh.write(job["coord_text"])
        # make sure a stat based cache would see a change as well
        os.utime(inp, (1, 1))


def run(job, props=("C03", "C04", "C05", "C06", "C07", "C15", "C17"), keep_dir=None):
    """Execute one world-A job.  Returns the result dict of simkit.driver."""
    global CTX
    from polyply.src.gen_coords import gen_coords
    from vermouth.file_writer import DeferredFileWriter
    rec = Recorder()
    tape = Tape(job.get("tape", {}))
    sysrng = random.Random(h64(f"{job['run_seed']}:sys:{job.get('sys_seed', 0)}"))
    ctx = _Ctx(job, rec, tape, sysrng)
    CTX = ctx
    scratch = os.environ.get("VERIF_SCRATCH") or tempfile.gettempdir()
    workdir = keep_dir or tempfile.mkdtemp(prefix="vwa_", dir=scratch)
    status = "ok"
    error = None
    handler = _LogHandler(ctx)
    plog = logging.getLogger("polyply")
    plog.addHandler(handler)
    old_level = plog.level
    plog.setLevel(logging.DEBUG)
    oldcwd = os.getcwd()
    saved = []
    try:
        write_inputs(job, workdir)
        kw = gen_coords_kwargs(job, workdir)
        rec.emit("run", seed=job["run_seed"])
        try:
            DeferredFileWriter().close() if hasattr(DeferredFileWriter(), "close") else None
        except Exception:
            pass
        if job.get("pre_spec") is not None:
            # history: an earlier gen_coords call in this process read ANOTHER topology from the same file names
            _pre_call_spec(job, workdir, kw)
            ctx.probe("earlier_call_same_topology_paths")
        if job.get("pre_coord_text") is not None and job.get("coord_text") is not None:
            # history: an earlier gen_coords call in this process read ANOTHER structure from the same input path
            _pre_call(job, workdir, kw)
            ctx.probe("earlier_call_same_input_path")
        if job.get("pre_build_text") and kw.get("build") and not job.get("two_build_files"):
            _pre_call_build(job, workdir, kw)
            ctx.probe("earlier_call_same_build_file_path")
        saved = _install(ctx)
        random.seed(sysrng.getrandbits(32))
        np.random.seed(sysrng.getrandbits(32))
        if job.get("rel_inputs") and job.get("coord_text") is not None and not job.get("cwd_decoy"):
            # the input structure is addressed by a RELATIVE path from another working directory; a different file of
            # the same name lies next to the topology
            work = os.path.join(workdir, "elsewhere")
            os.makedirs(work, exist_ok=True)
            key = "coordpath_meta" if "coordpath_meta" in kw and job.get("coord_kind") == "meta" else "coordpath"
            base = os.path.basename(str(kw[key]))
            with open(os.path.join(work, base), "w") as fh:
                fh.write(job["coord_text"])
            with open(os.path.join(workdir, base), "w") as fh:
                fh.write(job["rel_decoy_text"])
            kw[key] = Path(base)
            os.chdir(work)
            ctx.probe("relative_input_path_with_decoy_next_to_topology")
        elif job.get("cwd_decoy"):
            # the process works in another directory that holds different files under the names of the included .itp
            decoy_dir = os.path.join(workdir, "elsewhere")
            os.makedirs(decoy_dir, exist_ok=True)
            for fn, txt in topgen.render_top(job["cwd_decoy"]).items():
                if fn != "system.top":
                    with open(os.path.join(decoy_dir, fn), "w") as fh:
                        fh.write(txt)
            os.chdir(decoy_dir)
            ctx.probe("cwd_with_decoy_includes")
        else:
            os.chdir(workdir)
        try:
            gen_coords(**kw)
        except SimAbort as err:
            status = "abort"
            error = str(err)
        except REJECT_TYPES as err:
            status = "rejected"
            error = f"{type(err).__name__}: {err}"
        except Exception as err:
            import traceback
            status = "crash"
            tb = traceback.extract_tb(err.__traceback__)
            where = ""
            for fr in reversed(tb):
                if "/polyply/" in fr.filename:
                    where = f"{os.path.basename(fr.filename)}:{fr.name}"
                    break
            error = f"{type(err).__name__}: {str(err)[:200]} at {where}"
            ctx.crash_where = where
        finally:
            _uninstall(saved)
            saved = []
            os.chdir(oldcwd)
        rec.emit("end", status=status)
        if status == "crash":
            stage = ctx.stage
            where = getattr(ctx, "crash_where", "")
            facts = {"where": where, "optimiser_exhausted": ctx.opt_forced_fail_streak > 10}
            ctx.fail("C03", "crash", f"gen_coords raised {error}", **facts)
            if "generate_templates" in where:
                ctx.fail("C15", "crash", f"template generation raised {error}", **facts)
            if ctx.building:
                pass
            if where.split(":")[0] in ("build_system.py", "random_walk.py", "nonbond_engine.py"):
                ctx.fail("C17", "crash", f"building raised {error}", **facts)
                if job["opts"].get("ignore") or ctx.supplied:
                    ctx.fail("C04", "crash", f"building with supplied/ignored molecules raised {error}", **facts)
        if status == "abort":
            # bounded progress after the faults stop is NOT part of C17's statement (polyply retries without limit,
            # e.g. a ring declared cyclic with -sf > 1 can never satisfy bounds computed from the unscaled step):
            # such runs are counted and listed, never judged
            if tape.exhausted():
                ctx.probe("no_progress_after_faults_stopped")
        if status == "ok":
            final_state.check_all(ctx, job, workdir, props)
    except HarnessError:
        raise
    finally:
        if saved:
            _uninstall(saved)
        plog.removeHandler(handler)
        plog.setLevel(old_level)
        try:
            DeferredFileWriter().close()
        except Exception:
            pass
        if keep_dir is None:
            shutil.rmtree(workdir, ignore_errors=True)
        CTX = None
    viols = ctx.viols
    sig = rec.signature()
    res = {
        "status": "violation" if viols else status,
        "raw_status": status,
        "error": error,
        "violations": viols,
        "digest": rec.digest(), "events": rec.seq,
        "signature": sig,
        "faults": ctx.faults, "probes": ctx.probes,
        "tail": rec.tail(50),
        "tape_consumed": tape.consumed(),
    }
    if status == "abort" and not viols:
        res["status"] = "ok"
        res["probes"]["aborted_on_step_cap"] = 1
    return res

"""World B - operation histories on the real NonBondEngine against a brute-force model.

The model is written from the property text: a dict (mol, node) -> xyz, minimum-image
arithmetic by brute force, 12-6 force = -grad of 4*eps*((s/r)^12-(s/r)^6) along the
minimum-image unit vector, eps = 1, s = mean of the two residue sizes, cut-off = twice
the largest size, 0.1 nm floor.
"""
import itertools
import math

import networkx as nx
import numpy as np

from simkit.core import Recorder, Violation

INF3 = (math.inf, math.inf, math.inf)


# ----------------------------------------------------------------------------- model
class EngineModel:
    def __init__(self, box, sizes, node_type):
        self.box = np.asarray(box, dtype=float)
        self.sizes = dict(sizes)              # type name -> size
        self.node_type = dict(node_type)      # (mol,node) -> type name
        self.pos = {}                         # (mol,node) -> np.array(3)
        # twice the largest size among the residue types present in the system
        self.cut_off = 2.0 * max(self.sizes[t] for t in set(self.node_type.values()))

    def min_image(self, a, b):
        d = np.asarray(a, dtype=float) - np.asarray(b, dtype=float)
        return d - self.box * np.round(d / self.box)

    def min_dist_brute(self, a, b):
        a = np.asarray(a, dtype=float)
        b = np.asarray(b, dtype=float)
        best = math.inf
        for s in itertools.product((-1, 0, 1), repeat=3):
            d = np.linalg.norm(a - b + np.array(s) * self.box)
            best = min(best, d)
        return best

    def sigma(self, ta, tb):
        return 0.5 * (self.sizes[ta] + self.sizes[tb])

    def force(self, point, mol, node, exclude):
        """returns (kind, vector, info) with kind in 'inf','vec','dontcare'"""
        point = np.asarray(point, dtype=float)
        info = {"pairs": 0, "across": False}
        if not self.pos:
            return "vec", np.zeros(3), info
        keys = list(self.pos)
        arr = np.array([self.pos[k] for k in keys], dtype=float)
        excl = {(mol, n) for n in exclude}
        is_excl = np.array([k in excl for k in keys], dtype=bool)
        vec = point - arr
        vec = vec - self.box * np.round(vec / self.box)
        r = np.linalg.norm(vec, axis=1)
        edge = bool(np.any(np.abs(r - self.cut_off) < 1e-9) or np.any(np.abs(r - 0.1) < 1e-9))
        within = r <= self.cut_off
        floor = within & (r < 0.1)
        floor_excl = bool(np.any(floor & is_excl))
        floor_nonexcl = bool(np.any(floor & ~is_excl))
        use = within & ~floor & ~is_excl
        tcur = self.node_type[(mol, node)]
        total = np.zeros(3)
        if np.any(use):
            idx = np.where(use)[0]
            sig = np.array([self.sigma(tcur, self.node_type[keys[i]]) for i in idx])
            rr = r[idx]
            mag = 24.0 / rr * (2.0 * (sig / rr) ** 12 - (sig / rr) ** 6)
            total = np.sum((mag / rr)[:, None] * vec[idx], axis=0)
            direct = point - arr[idx]
            info["across"] = bool(np.any(np.linalg.norm(direct - vec[idx], axis=1) > 1e-9))
            info["pairs"] = int(len(idx))
        if edge or (floor_excl and not floor_nonexcl):
            return "dontcare", total, info
        if floor_nonexcl:
            return "inf", total, info
        return "vec", total, info


# ----------------------------------------------------------------------------- helpers
class _Topo:
    def __init__(self, volumes):
        self.volumes = volumes
        self.bending = {}


def build_engine(cfg):
    """Real constructor: NonBondEngine.from_topology over plain residue graphs."""
    from polyply.src.nonbond_engine import NonBondEngine
    mols = []
    node_type = {}
    for m, mol in enumerate(cfg["molecules"]):
        g = nx.Graph()
        g.mol_name = f"M{m}"
        for n, (key, typ, xyz) in enumerate(mol):
            attrs = {"resname": typ}
            if xyz is not None:
                attrs["position"] = np.array(xyz, dtype=float)
            g.add_node(key, **attrs)
            node_type[(m, key)] = typ
        mols.append(g)
    topo = _Topo(dict(cfg["sizes"]))
    box = np.array(cfg["box"], dtype=float)
    eng = NonBondEngine.from_topology(mols, topo, box)
    return eng, mols, node_type


PROBE_OFFSETS = [(0.13, 0.0, 0.0), (0.0, -0.21, 0.08), (-0.35, 0.3, 0.0), (0.0, 0.0, 0.0)]


def _isinf_force(f):
    return np.ndim(f) == 0 and np.isinf(f)


def run_history(cfg, ops, prop="C16", whitebox=True):
    """Execute ops on the real engine and the model; raise nothing, return result dict."""
    rec = Recorder()
    probes = {}
    faults = {}
    viols = []

    def probe(name):
        probes[name] = probes.get(name, 0) + 1

    def fail(clause, msg, **facts):
        viols.append(Violation(prop, clause, msg, seq=rec.seq, facts=facts).to_json())

    eng, mols, node_type = build_engine(cfg)
    model = EngineModel(cfg["box"], cfg["sizes"], node_type)
    for m, mol in enumerate(cfg["molecules"]):
        for key, typ, xyz in mol:
            if xyz is not None:
                model.pos[(m, key)] = np.array(xyz, dtype=float)
    box = model.box
    rec.emit("init", n=len(node_type), positioned=len(model.pos), box=box, cut=model.cut_off)
    if abs(eng.cut_off - model.cut_off) > 1e-12:
        fail("force", f"cut-off {eng.cut_off} != twice largest size {model.cut_off}")
    opkinds = set()

    def check_force(point, mol, node, exclude, tag):
        point = np.asarray(point, dtype=float)
        kind, vec, info = model.force(point, mol, node, exclude)
        got = eng.compute_force_point(point, mol, node, exclude=list(exclude))
        if info["across"]:
            probe("pair_across_boundary")
        if kind == "dontcare":
            probe("force_dontcare")
            return
        if kind == "inf":
            probe("floor_hit")
            if not _isinf_force(got) and not np.any(np.isinf(np.asarray(got, dtype=float))):
                fail("floor", f"{tag}: residue within 0.1 nm of {point.tolist()} but force {got}")
            return
        gotv = np.zeros(3) + (np.asarray(got, dtype=float) if not _isinf_force(got) else np.inf)
        if info["pairs"]:
            probe("force_pairs")
        scale = max(1.0, float(np.linalg.norm(vec)))
        if not np.all(np.isfinite(gotv)) or np.linalg.norm(gotv - vec) > 1e-7 * scale:
            fail("force", f"{tag}: force at {np.round(point, 6).tolist()} on ({mol},{node}) excl={list(exclude)} "
                          f"engine={np.asarray(gotv).tolist()} model={vec.tolist()} pairs={info['pairs']}",
                 pair_across_boundary=bool(info["across"]))
        rec.emit("force", p=point, f=vec)

    def check_views(tag):
        # public view: get_point
        for key in node_type:
            got = eng.get_point(*key)
            exp = model.pos.get(key)
            if exp is None:
                if not np.all(np.isinf(got)):
                    fail("point", f"{tag}: {key} is not positioned but get_point={got}")
                    return
            elif not np.array_equal(np.asarray(got, dtype=float), exp):
                fail("point", f"{tag}: {key} get_point={got} expected last given {exp}")
                return
        if not whitebox:
            return
        need = ("positions", "defined_idxs", "position_trees", "gndx_to_tree", "nodes_to_gndx")
        if not all(hasattr(eng, a) for a in need):
            return
        probe("whitebox_views")
        g2k = {g: k for k, g in eng.nodes_to_gndx.items()}
        seen = {}
        for t, (idxs, tree) in enumerate(zip(eng.defined_idxs, eng.position_trees)):
            if tree.n != len(idxs):
                fail("views", f"{tag}: tree {t} holds {tree.n} points, index list {len(idxs)}")
                return
            data = np.asarray(tree.data).reshape(-1, 3)
            for j, g in enumerate(idxs):
                if g in seen:
                    fail("views", f"{tag}: residue {g2k[g]} listed twice (trees {seen[g]} and {t})")
                    return
                seen[g] = t
                key = g2k[g]
                if key not in model.pos:
                    fail("views", f"{tag}: tree {t} still holds removed residue {key}")
                    return
                if not np.array_equal(data[j], model.pos[key]):
                    fail("views", f"{tag}: tree {t} entry for {key} is {data[j]} expected {model.pos[key]}")
                    return
                if eng.gndx_to_tree.get(g) != t:
                    fail("views", f"{tag}: residue {key} mapped to tree {eng.gndx_to_tree.get(g)} but stored in {t}")
                    return
        if len(seen) != len(model.pos):
            missing = [k for k in model.pos if eng.nodes_to_gndx[k] not in seen]
            fail("views", f"{tag}: positioned residues missing from all trees: {missing[:5]}")
            return
        if set(eng.gndx_to_tree) != set(seen):
            fail("views", f"{tag}: tree map has stale entries")

    def auto_probes(center, mol, node, tag):
        for off in PROBE_OFFSETS:
            p = (np.asarray(center, dtype=float) + np.array(off)) % box
            if np.any(p >= box):
                continue
            check_force(p, mol, node, [node], tag)
            if viols:
                return


    def _do_op(op, tag):
        nonlocal ntrees_max
        kind = op[0]

        if kind == "add":
            _, m, n, start, xyz = op
            if (m, n) in model.pos or (m, n) not in node_type:
                return ntrees_max                        # re-adding a positioned residue is outside the contract
            xyz = np.array(xyz, dtype=float)
            before = len(getattr(eng, "position_trees", [0]))
            eng.add_positions(xyz.copy(), m, n, start=bool(start))
            model.pos[(m, n)] = xyz
            rec.emit("add", mol=m, node=n, start=start, xyz=xyz)
            after = len(getattr(eng, "position_trees", [0]))
            if after > before:
                probe("new_tree_opened")
            ntrees_max = max(ntrees_max, after)
            opkinds.add("add")
            check_views(tag)
            if not viols:
                auto_probes(xyz, m, n, tag)
        elif kind == "remove":
            _, m, nodes = op
            nodes = [n for n in nodes if (m, n) in node_type]
            old = [model.pos[(m, n)] for n in nodes if (m, n) in model.pos]
            if any((m, n) not in model.pos for n in nodes):
                probe("remove_undefined")
            if len(set(nodes)) != len(nodes):
                probe("remove_repeated")
            # the keys are handed over as list, tuple or one-shot iterator ("iterable" in the docstring)
            style = (len(nodes) + int(sum(map(ord, tag)))) % 3
            arg = list(nodes) if style == 0 else (tuple(nodes) if style == 1 else iter(list(nodes)))
            if style == 2:
                probe("remove_given_as_iterator")
            eng.remove_positions(m, arg)
            for n in nodes:
                model.pos.pop((m, n), None)
            rec.emit("remove", mol=m, nodes=nodes)
            opkinds.add("remove")
            if hasattr(eng, "position_trees") and any(t.n == 0 for t in eng.position_trees):
                probe("tree_emptied")
            check_views(tag)
            for xyz in old[:3]:
                if viols:
                    break
                auto_probes(xyz, m, nodes[0], tag)
        elif kind == "concat":
            nt = len(getattr(eng, "position_trees", [0]))
            if nt > 1:
                probe("concatenate_multi")
            eng.concatenate_trees()
            rec.emit("concat")
            opkinds.add("concat")
            check_views(tag)
            for key in list(model.pos)[-2:]:
                if viols:
                    break
                auto_probes(model.pos[key], key[0], key[1], tag)
        elif kind == "force":
            _, p, m, n, excl = op
            if (m, n) not in node_type:
                return ntrees_max
            excl = [e for e in excl if (m, e) in node_type]
            opkinds.add("force")
            check_force(p, m, n, excl, tag)
        elif kind == "mindist":
            _, a, b, shift = op
            a = np.array(a, dtype=float)
            b = np.array(b, dtype=float)
            opkinds.add("mindist")
            d_ab = eng.pbc_min_dist(a, b)
            d_ba = eng.pbc_min_dist(b, a)
            ref = model.min_dist_brute(a, b)
            rec.emit("mindist", a=a, b=b, d=ref)
            if not (abs(d_ab - d_ba) <= 1e-9):
                fail("mindist.sym", f"{tag}: d(a,b)={d_ab} d(b,a)={d_ba}")
            if abs(d_ab - ref) > 1e-9:
                fail("mindist.periodic", f"{tag}: pbc_min_dist={d_ab} brute force over 27 images={ref} a={a} b={b}")
            if d_ab > np.linalg.norm(a - b) + 1e-9:
                fail("mindist.bound", f"{tag}: min image {d_ab} exceeds direct {np.linalg.norm(a - b)}")
            a2 = (a + np.array(shift) * box)
            d_sh = eng.pbc_min_dist(a2, b)
            if abs(d_sh - d_ab) > 1e-9:
                fail("mindist.periodic", f"{tag}: not invariant under box shift {shift}: {d_sh} vs {d_ab}")
        elif kind == "mindist_node":
            _, ka, kb = op
            if tuple(ka) not in node_type or tuple(kb) not in node_type:
                return ntrees_max
            pa = eng.get_point(*ka)
            pb = eng.get_point(*kb)
            d = eng.pbc_min_dist(pa, pb)
            opkinds.add("mindist")
            if tuple(ka) in model.pos and tuple(kb) in model.pos:
                ref = model.min_dist_brute(model.pos[tuple(ka)], model.pos[tuple(kb)])
                if abs(d - ref) > 1e-9:
                    fail("mindist.periodic", f"{tag}: {ka}-{kb} {d} vs {ref}")
            elif not np.isnan(d):
                fail("point", f"{tag}: distance to an unpositioned residue should be undefined, got {d}")
        elif kind == "writeback":
            eng.update_positions_in_molecules(mols)
            opkinds.add("writeback")
            rec.emit("writeback")
            for m, g in enumerate(mols):
                for n in g.nodes:
                    got = np.asarray(g.nodes[n]["position"], dtype=float)
                    exp = model.pos.get((m, n))
                    if exp is None:
                        if not np.all(np.isinf(got)):
                            fail("writeback", f"{tag}: unpositioned {(m, n)} written as {got}")
                    elif not np.array_equal(got, exp):
                        fail("writeback", f"{tag}: {(m, n)} written as {got} expected {exp}")
        elif kind == "inter":
            _, ka, kb = op
            if tuple(ka) not in node_type or tuple(kb) not in node_type:
                return ntrees_max
            got = eng.get_interaction(ka[0], kb[0], ka[1], kb[1])
            sig = model.sigma(node_type[tuple(ka)], node_type[tuple(kb)])
            opkinds.add("inter")
            if abs(got[0] - sig) > 1e-12 or abs(got[1] - 1.0) > 1e-12:
                fail("force", f"{tag}: pair parameters {got} expected ({sig}, 1.0)")
        return ntrees_max

    ntrees_max = 1
    for i, op in enumerate(ops):
        if viols:
            break
        kind = op[0]
        tag = f"op{i}:{kind}"
        try:
            ntrees_max = max(ntrees_max, _do_op(op, tag))
        except Exception as err:       # every generated operation is valid: the engine must not raise
            import traceback
            tb = traceback.extract_tb(err.__traceback__)
            where = next((f"{fr.filename.split('/')[-1]}:{fr.name}" for fr in reversed(tb) if "/polyply/" in fr.filename), "")
            if not where:
                raise
            fail("crash", f"{tag}: engine raised {type(err).__name__}: {str(err)[:200]} at {where}")
    if ntrees_max > 1:
        probe("multi_tree_state")
    return {
        "status": "violation" if viols else "ok",
        "violations": viols,
        "digest": rec.digest(), "events": rec.seq,
        "signature": "".join(o[0][0] for o in ops),
        "ntkey": rec.digest(),
        "nontrivial": len(opkinds) >= 3,
        "faults": faults, "probes": probes,
        "tail": rec.tail(30),
    }

#!/usr/bin/env python3
"""Zygote interpreter of world C: started once per PYTHONHASHSEED, imports polyply, then
forks one pristine child per history request.  Protocol: one JSON document per line on
stdin ({"hist": ...}) -> one JSON document per line on stdout."""
import json
import os
import select
import signal
import sys

HERE = os.path.dirname(os.path.dirname(os.path.abspath(__file__)))


def main():
    os.environ.setdefault("TQDM_DISABLE", "1")
    repo = os.environ.get("VERIF_REPO", "/repo")
    sys.path.insert(0, repo)
    sys.path.insert(0, HERE)
    import warnings
    warnings.filterwarnings("ignore")
    real_stdout = os.fdopen(os.dup(1), "w")
    devnull = os.open(os.devnull, os.O_WRONLY)
    os.dup2(devnull, 1)          # polyply prints at import time
    import polyply  # noqa: F401
    import polyply.src.gen_coords  # noqa: F401
    from worlds import params_world
    try:
        import ctypes
        ctypes.CDLL("libc.so.6").prctl(1, signal.SIGKILL)   # die with the parent
    except Exception:
        pass
    real_stdout.write(json.dumps({"ready": True, "hashseed": os.environ.get("PYTHONHASHSEED"),
                                  "polyply": os.path.realpath(polyply.__file__)}) + "\n")
    real_stdout.flush()
    for line in sys.stdin:
        line = line.strip()
        if not line:
            continue
        req = json.loads(line)
        timeout = req.get("timeout", 120)
        r, w = os.pipe()
        pid = os.fork()
        if pid == 0:
            os.close(r)
            try:
                res = params_world.exec_history(req["hist"])
                payload = json.dumps({"ok": True, "result": res})
            except BaseException as err:   # noqa
                import traceback
                payload = json.dumps({"ok": False, "error": "".join(
                    traceback.format_exception(type(err), err, err.__traceback__))[-3000:]})
            with os.fdopen(w, "w") as fh:
                fh.write(payload)
            os._exit(0)
        os.close(w)
        chunks = []
        timed_out = False
        with os.fdopen(r, "r") as fh:
            fd = fh.fileno()
            while True:
                ready, _, _ = select.select([fd], [], [], timeout)
                if not ready:
                    timed_out = True
                    os.kill(pid, signal.SIGKILL)
                    break
                data = os.read(fd, 1 << 16)
                if not data:
                    break
                chunks.append(data)
        os.waitpid(pid, 0)
        if timed_out:
            out = json.dumps({"ok": False, "error": "timeout"})
        else:
            out = b"".join(chunks).decode() or json.dumps({"ok": False, "error": "child died without result"})
        real_stdout.write(out + "\n")
        real_stdout.flush()


if __name__ == "__main__":
    main()

#!/usr/bin/env python3
"""Entry point:  check.py <ID> --tier quick|thorough   |   check.py <ID> --replay <file>

exit 0 property held on everything explored; exit 1 + "VIOLATION property=<id> replay=<path>";
exit 2 + "HARNESS-ERROR ..." for problems of the machinery itself.
"""
import argparse
import os
import sys

HERE = os.path.dirname(os.path.abspath(__file__))


def _reexec():
    """World A/B run with PYTHONHASHSEED=0; world C treats the hash seed as a simulated
    dimension of its worker interpreters, the coordinator itself is pinned as well."""
    if os.environ.get("PYTHONHASHSEED") is None and not os.environ.get("VERIF_NO_REEXEC"):
        env = dict(os.environ)
        env["PYTHONHASHSEED"] = "0"
        env["VERIF_NO_REEXEC"] = "1"
        os.execve(sys.executable, [sys.executable] + sys.argv, env)


def main():
    _reexec()
    import warnings
    warnings.filterwarnings("ignore")
    os.environ.setdefault("PYTHONWARNINGS", "ignore")
    os.environ.setdefault("TQDM_DISABLE", "1")
    os.environ.setdefault("OMP_NUM_THREADS", "1")
    os.environ.setdefault("OPENBLAS_NUM_THREADS", "1")
    os.environ.setdefault("MKL_NUM_THREADS", "1")
    os.environ.setdefault("MARRINK_LAB_POLYPLY_1_0_VERIF", "1")
    repo = os.environ.get("VERIF_REPO", "/repo")
    sys.path.insert(0, repo)          # sys.path beats the editable finder (measured)
    sys.path.insert(0, HERE)
    ap = argparse.ArgumentParser()
    ap.add_argument("prop")
    ap.add_argument("--tier", default=os.environ.get("VERIF_TIER", "quick"), choices=["quick", "thorough"])
    ap.add_argument("--replay")
    ap.add_argument("--runs", type=int)
    ap.add_argument("--budget", type=float, help="wall-clock budget in seconds (stop submitting runs)")
    ap.add_argument("--digests", help="internal: print digests of these run indices")
    ap.add_argument("--jobs", type=int, default=int(os.environ.get("VERIF_JOBS", "16")))
    ap.add_argument("--no-selftest", action="store_true")
    args = ap.parse_args()
    seed = int(os.environ.get("VERIF_SEED", "0"))
    modname = f"checks.{args.prop.lower()}"
    from simkit import driver
    import polyply  # noqa: F401  (fail early, as a harness error, if the tree does not import)
    if not os.path.realpath(polyply.__file__).startswith(os.path.realpath(repo)):
        print(f"HARNESS-ERROR polyply imported from {polyply.__file__}, expected under {repo}")
        return 2
    if args.replay:
        return driver.replay(modname, args.replay)
    if args.digests:
        import importlib
        mod = importlib.import_module(modname)
        for i in map(int, args.digests.split(",")):
            job = mod.gen_job(seed, args.tier, i)
            res = driver._exec_job(modname, job)
            print("DIGEST", i, res.get("digest"))
        return 0
    return driver.run_check(modname, args.tier, seed, args.jobs, n_override=args.runs,
                            selftest=not args.no_selftest, budget_s=args.budget)


if __name__ == "__main__":
    try:
        rc = main()
    except SystemExit:
        raise
    except BaseException as err:   # never exit 0 or 1 on a harness problem
        import traceback
        traceback.print_exc()
        print("HARNESS-ERROR", repr(err))
        rc = 2
    sys.stdout.flush()
    os._exit(rc)

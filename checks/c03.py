"""C03 - gen_coords writes one finite coordinate per topology atom, in topology order."""
from gen import jobgen, bldgen, topgen
from checks import _world_a as wa

PROP = "C03"
LEVEL = "exploration"
RULE = ("seeded gen_coords runs over generated topologies (1-3 molecule types: single residues, chains, stars, combs, "
        "trees, rings; 1-12 molecules; residues of 1-4 atoms + virtual sites) x option sets (-box cubic/non-cubic, -dens, "
        "-gs, user -grid, -sf, -mf, -nr, -mi, -start, -c/-mc/-res/-ign from an earlier build, build files) x decision tapes "
        "(forced step failures, exhausted steps, rejected starts, rejected candidates, optimiser failures, replaced "
        "orientation results; density in {0,.02,.1,.3,.6}, half of them bursty); the written .gro is read with an "
        "independent fixed-column reader and compared with the generator's expanded [molecules] list; a run is "
        "non-trivial if it builds >= 2 molecules or its schedule contains a fault symbol; distinct = distinct "
        "(schedule signature, event-log digest)")
ASSUMPTIONS = wa.ASSUMPTIONS
REAL_VS_STUB = wa.REAL_VS_STUB
PROBES = wa.PROBES + ["cwd_with_decoy_includes", "earlier_call_same_topology_paths", "user_grid", "start_option", "coords_supplied", "density_box", "build_file", "include_in_ifdef_else", "resid_restart_inside_molecule", "pdb_input_without_box_record", "default_grid_reaches_box_face"]
PROFILE = {"p_pdb": 0.45, "p_pdb_nobox": 0.6}


def n_runs(tier):
    return 400 if tier == "quick" else 40000


def gen_job(verif_seed, tier, index):
    job, st = jobgen.base_job(PROP, verif_seed, tier, index, PROFILE)
    g = st.gen
    if g.random() < 0.12:
        jobgen.add_list_order(job, g)          # before any coordinates are derived from the topology order
    elif g.random() < 0.1:
        jobgen.add_resid_restart(job, g)       # residue numbers that start again inside a molecule type
    r = g.random()
    if r < 0.1 and len(job["spec"]["restypes"]) >= 2 and not job.get("list_order"):
        # kept residues in the middle of a rebuilt chain + step failures: rewinds pass over supplied residues
        if jobgen.make_interior_kept(job, g) and not job["tape"].get("step"):
            from simkit.core import draw_lane
            job["tape"]["step"] = draw_lane(st.tape, 40, 0.3, True)
    elif r < 0.3:
        jobgen.add_coordinates(job, g, PROFILE)
    elif r < 0.5 and "box" in job["opts"]:
        job["build_spec"] = bldgen.gen_build_spec(g, job["spec"], job["opts"]["box"], ["geom", "rw"],
                                                  est_size=max(topgen.est_size(rt) for rt in job["spec"]["restypes"].values()))
    elif r < 0.6:
        jobgen.add_user_templates(job, g)
    if job.get("coord_text") is None and not job.get("build_spec") and g.random() < 0.12:
        jobgen.add_pre_variant(job, g)
    if not job.get("pre_spec") and g.random() < 0.1 and len(job["spec"]["moltypes"]) >= 2:
        # topology addressed from another working directory in which same-named include files lie around
        keep = job.get("pre_spec")
        if jobgen.add_pre_variant(job, g, "shorter"):
            job["cwd_decoy"] = job.pop("pre_spec")
            job.pop("pre_kind", None)
    if job.get("coord_text") is None and not job["opts"].get("start") and g.random() < 0.1:
        # a [ molecules ] line with count 0 (script-written topologies): contributes no molecule, no atoms, no mass
        spec = job["spec"]
        nm = g.choice([m["name"] for m in spec["moltypes"]])
        spec["molecules"].insert(g.randint(0, len(spec["molecules"])), [nm, 0])
        job["zero_count_entry"] = True
    if job.get("coord_text") is None and "density" in job["opts"] and g.random() < 0.3:
        jobgen.add_alias_other_masses(job, g)
    if (not job.get("pre_spec") and not job.get("cwd_decoy") and g.random() < 0.12
            and len(job["spec"]["moltypes"]) >= 2 and job.get("coord_text") is None):
        jobgen.add_cond_include(job, g)
    if job.get("coord_text") is None and not job.get("build_spec") and g.random() < 0.04:
        # a box edge that is an exact floating-point multiple of the grid spacing (11 x 0.37 = 4.07): numpy's mgrid
        # then includes the end point, a start point ON the upper box face
        k = g.choice([11, 22])
        edge = round(k * 0.37, 2)
        job["opts"].pop("density", None)
        job["opts"]["box"] = [edge, edge, edge]
        job["opts"]["grid_spacing"] = 0.37
        job["grid_point_on_box_face"] = True
    elif job.get("coord_text") is None:
        if g.random() < 0.2:
            jobgen.add_user_grid(job, g)
        if g.random() < 0.25:
            jobgen.add_start(job, g)
    return job


def _tag(job, res):
    p = res["probes"]
    if job.get("grid_points") is not None:
        p["user_grid"] = 1
    if job["opts"].get("start"):
        p["start_option"] = 1
    if job.get("resid_restart"):
        p["resid_restart_inside_molecule"] = 1
    if job.get("pdb_no_box"):
        p["pdb_input_without_box_record"] = 1
    if job.get("grid_point_on_box_face"):
        p["default_grid_reaches_box_face"] = 1
    if job["spec"].get("cond_include"):
        p["include_in_ifdef_else"] = 1
    if job.get("coord_text") is not None:
        p["coords_supplied"] = 1
    if job["opts"].get("density") is not None:
        p["density_box"] = 1
    if job.get("build_spec") or job.get("bld_templates") or job.get("bld_volumes"):
        p["build_file"] = 1
    nmol = sum(c for _, c in job["spec"]["molecules"])
    return nmol >= 2 or wa.has_fault_symbol(res)


def run_job(job):
    return wa.run_and_tag(job, _tag)


reductions = jobgen.reductions

"""C11 - generated .itp files are written and re-read to the same molecule."""
import hashlib

from simkit.core import Streams, run_seed, dumps
from simkit import zygotes
from gen import ffgen, histgen

PROP = "C11"
LEVEL = "exploration"
RULE = ("call histories of 1-6 gen_params operations executed in ONE pristine child interpreter (forked from a zygote "
        "started with a PYTHONHASHSEED from {0,1,7,1234}): jobs over generated .ff force fields (1-3 blocks of 1-4 atoms, "
        "bond/angle links incl. conditional #ifdef/#ifndef interactions, 1-3 files) x residue graphs (-seq lists, .json and "
        "line-wrapped .txt/.fasta/.ig sequence files: linear, tree, star, ring, <= 10 residues) and over shipped libraries "
        "(polymers, proteins, DNA strands incl. circular ones), interleaved with failing calls, calls writing "
        "to the same path (backups), a cwd different from the output directory, and calls through bin/polyply main(); "
        "after every successful call the file is read back through a wrapper .top with Topology.from_gmx_topfile and "
        "compared with the molecule object intercepted at the writer (atoms, interaction multisets with parameters and "
        "guards, residue-graph isomorphism when no link is missing); non-trivial = a successful call whose molecule has >= 1 "
        "interaction spanning two residues; distinct = distinct history digests")
ASSUMPTIONS = ["the molecule handed to vermouth's write_molecule_itp is 'the molecule that was built'",
               "generated force fields are valid and non-conflicting by construction; an exception on such input counts as C11.crash"]
REAL_VS_STUB = {"real": ["load_ff_library, ff/itp parsers, MetaMolecule builders, MapToMolecule, ApplyLinks, ApplyModifications, "
                         "find_missing_edges, vermouth write_molecule_itp + DeferredFileWriter, Topology.from_gmx_topfile, "
                         "bin/polyply main() (argument parsing) in a fraction of the calls, real file system"],
                "stub": ["tqdm disabled", "sys.argv pinned", "os.listdir of the library directory sorted/permuted by the harness"]}
PROBES = ["sequence_file_ig_wrapped", "sequence_file_fasta_wrapped", "sequence_file_txt_wrapped", "earlier_output_directory_removed", "raised_after_output_was_written", "atom_deleting_link", "read_back_next_to_lower_case_namesake", "read_back_through_nested_include", "read_back_from_other_cwd_with_decoy", "read_back_with_guard_tags_defined", "publish_across_filesystems", "via_main", "same_path_backup", "after_failed_call", "cwd_differs", "lib_job", "conditional_interactions",
          "json_graph", "cyclic_graph"]


def n_runs(tier):
    return 600 if tier == "quick" else 60000


def gen_job(verif_seed, tier, index):
    seed = run_seed(PROP, verif_seed, index)
    st = Streams(seed)
    g = st.gen
    hs = st.env.choice(histgen.PALETTE)
    nops = g.randint(1, 6)
    ops = []
    ff = ffgen.gen_ff(g, removal_p=0.15)
    for k in range(nops):
        if g.random() < 0.3:
            ff = ffgen.gen_ff(g, removal_p=0.15)
        rg = ffgen.gen_resgraph(g, ff)
        if g.random() < 0.06:
            ff, rg = ffgen.gen_ff_linktype(g)
        r = g.random()
        out = g.choice(["out.itp", "out.itp", "other.itp", "sub/out.itp", "PEO_1.5k", "sub/polymer", "mol.v2.top"])
        if r < 0.15:
            op = histgen.failing_op(g, ff, rg, out=out)
        elif r < 0.22:
            op = histgen.lib_op(g, out=out)
        elif r < 0.3:
            prg = histgen.protein_graph(g)
            op = histgen.protein_op(g, prg, out=out)
            if g.random() < 0.4:
                op["graph"] = histgen.protein_fasta_graph(g, prg)      # the same chain as a line-wrapped .fasta file
        elif r < 0.36:
            # DNA strand over a shipped library, described by a line-wrapped .ig / .fasta sequence file or a .json graph
            drg = histgen.dna_graph(g) if g.random() < 0.7 else histgen.dna_ring_graph(g)
            op = histgen.dna_op(g, drg, "martini2" if drg["shape"] == "ring" else g.choice(["martini2", "parmbsc1"]),
                                False, out=out)
            if g.random() < 0.75:
                op["graph"] = histgen.dna_file_graph(g, drg)
        else:
            op = histgen.make_op(ff, rg, g, out=out)
        if g.random() < 0.3:
            op["cwd"] = g.choice(["wd", "sub"])
        if g.random() < 0.4:
            op["relpath"] = g.choice([True, "dotdot"])
        if g.random() < 0.15:
            op["exdev"] = True
        if g.random() < 0.25:
            op["read_with_decoy_in_cwd"] = True
        if g.random() < 0.25:
            op["read_with_defines"] = True
        if not op.get("read_with_decoy_in_cwd") and g.random() < 0.2:
            op["read_indirect"] = True
        elif not op.get("read_with_decoy_in_cwd") and g.random() < 0.25:
            op["read_with_case_decoy"] = True
        if out.startswith("sub/") and k < nops - 1 and g.random() < 0.4:
            op["rm_outdir_after"] = True          # its output directory is gone when the next call runs
        if g.random() < 0.15 and op.get("expect") != "fail":
            op["via_main"] = True
        ops.append(op)
    return {"index": index, "run_seed": seed, "hashseed": hs, "hist": {"ops": ops, "roundtrip": True}}


def run_job(job):
    res = zygotes.run_history(job["hashseed"], job["hist"])
    viols = []
    probes = {}
    nontrivial = False
    seen_out = set()
    failed_before = False
    h = hashlib.sha256()
    for op, r in zip(job["hist"]["ops"], res["ops"]):
        h.update(dumps([r["status"], r.get("out_text") and histgen_body(r["out_text"]), r.get("roundtrip")]).encode())
        expect_fail = op.get("expect") == "fail"
        if op.get("read_with_decoy_in_cwd"):
            probes["read_back_from_other_cwd_with_decoy"] = probes.get("read_back_from_other_cwd_with_decoy", 0) + 1
        if any("atomname\": null" in t for _f, t in op.get("files", [])):
            probes["atom_deleting_link"] = probes.get("atom_deleting_link", 0) + 1
        if op.get("rm_outdir_after"):
            probes["earlier_output_directory_removed"] = probes.get("earlier_output_directory_removed", 0) + 1
        if op.get("read_with_case_decoy"):
            probes["read_back_next_to_lower_case_namesake"] = probes.get("read_back_next_to_lower_case_namesake", 0) + 1
        if op.get("read_indirect"):
            probes["read_back_through_nested_include"] = probes.get("read_back_through_nested_include", 0) + 1
        if op.get("read_with_defines"):
            probes["read_back_with_guard_tags_defined"] = probes.get("read_back_with_guard_tags_defined", 0) + 1
        if op.get("exdev"):
            probes["publish_across_filesystems"] = probes.get("publish_across_filesystems", 0) + 1
        if op.get("via_main"):
            probes["via_main"] = probes.get("via_main", 0) + 1
        if op.get("lib"):
            probes["lib_job"] = probes.get("lib_job", 0) + 1
        if op["graph"]["kind"] == "json":
            probes["json_graph"] = probes.get("json_graph", 0) + 1
        if op["graph"]["kind"] == "file":
            k = "sequence_file_" + op["graph"]["ext"][1:] + ("_wrapped" if op["graph"].get("lines", 1) > 1 else "")
            probes[k] = probes.get(k, 0) + 1
        if op.get("resgraph") and op["resgraph"]["shape"] == "ring":
            probes["cyclic_graph"] = probes.get("cyclic_graph", 0) + 1
        if r["status"] != "ok":
            if not expect_fail:
                where = r.get("where") or ""
                # C11 speaks of inputs "that pass mapping and link application": an exception raised inside those
                # stages (or while reading the input) is outside its premise and only counted
                if where.split(":")[0] in ("map_to_molecule.py", "apply_links.py", "apply_modifications.py",
                                           "load_library.py", "ff_parser_sub.py", "polyply_parser.py", "meta_molecule.py",
                                           "simple_seq_parsers.py", "gen_dna.py"):
                    probes["refused_in_mapping_or_links"] = probes.get("refused_in_mapping_or_links", 0) + 1
                elif r.get("out_text") and op["out"] in (r.get("created", []) + r.get("modified", [])):
                    # the call raised AFTER it had written its output (e.g. while printing a force-field message that
                    # refers to an atom a link deleted): the property speaks of the file, which is there - counted only
                    probes["raised_after_output_was_written"] = probes.get("raised_after_output_was_written", 0) + 1
                else:
                    viols.append({"property": PROP, "clause": "crash", "seq": r["i"], "facts": {"where": where},
                                  "msg": f"call {r['i']} (valid input) raised {r.get('error')} at {where}"})
            failed_before = True
            continue
        if expect_fail:
            continue
        if op["out"] in seen_out:
            probes["same_path_backup"] = probes.get("same_path_backup", 0) + 1
        seen_out.add(op["out"])
        if failed_before:
            probes["after_failed_call"] = probes.get("after_failed_call", 0) + 1
        if op.get("cwd"):
            probes["cwd_differs"] = probes.get("cwd_differs", 0) + 1
        if r.get("out_text") and "#if" in r["out_text"]:
            probes["conditional_interactions"] = probes.get("conditional_interactions", 0) + 1
        for item in r.get("roundtrip") or []:
            clause, msg = item[0], item[1]
            facts = item[2] if len(item) > 2 else {}
            if clause == "harness":
                return {"status": "harness_error", "error": msg, "violations": []}
            viols.append({"property": PROP, "clause": clause, "seq": r["i"], "facts": facts,
                          "msg": f"call {r['i']} ({op['out']}): {msg}"})
        rg = op.get("resgraph")
        if (rg and len(rg["edges"]) >= 1) or op.get("lib"):
            nontrivial = True
    digest = h.hexdigest()[:24]
    return {"status": "violation" if viols else "ok", "violations": viols[:5], "digest": digest,
            "events": sum(r.get("calls") or 1 for r in res["ops"]), "signature": "".join(
                ("f" if r["status"] != "ok" else "o") for r in res["ops"]),
            "ntkey": digest, "nontrivial": nontrivial, "faults": {"failing_call_in_history": sum(
                1 for r in res["ops"] if r["status"] != "ok")}, "probes": probes,
            "sample": {"hashseed": job["hashseed"], "ops": [{"out": o["out"], "graph": o["graph"] if o["graph"]["kind"] == "seq"
                                                            else {"kind": o["graph"]["kind"] + o["graph"].get("ext", ""), "shape": (o.get("resgraph") or {}).get("shape"),
                                                                  "resnames": (o.get("resgraph") or {}).get("resnames")},
                                                            "lib": o.get("lib"), "files": [f for f, _ in o.get("files", [])],
                                                            "expect": o.get("expect", "ok"), "cwd": o.get("cwd"),
                                                            "via_main": o.get("via_main", False)}
                                                           for o in job["hist"]["ops"]]}}


def histgen_body(text):
    from worlds.params_world import parse_itp_text
    return parse_itp_text(text)["body"]


def reductions(job):
    ops = job["hist"]["ops"]
    for i in range(len(ops)):
        if len(ops) > 1:
            cand = dict(job)
            cand["hist"] = dict(job["hist"])
            cand["hist"]["ops"] = ops[:i] + ops[i + 1:]
            yield cand
    for i, op in enumerate(ops):
        for key in ("cwd", "via_main"):
            if op.get(key):
                cand = dict(job)
                cand["hist"] = dict(job["hist"])
                nop = {k: v for k, v in op.items() if k != key}
                cand["hist"]["ops"] = ops[:i] + [nop] + ops[i + 1:]
                yield cand
    if job["hashseed"] != 0:
        cand = dict(job)
        cand["hashseed"] = 0
        yield cand

"""C20 - outputs appear only after success and never clobber existing files."""
import hashlib

from simkit.core import Streams, run_seed, dumps
from simkit import zygotes
from gen import ffgen, histgen, topgen, jobgen

PROP = "C20"
LEVEL = "fault_enumeration"
RULE = ("per job: one gen_params / gen_seq / gen_coords call with a generated input; the output path is absent, holds a "
        "file with random content, or holds a file plus backups #name.1#..#name.k#; a traced fault-free run counts the N calls "
        "into polyply/vermouth code before the publishing step (DeferredFileWriter.write; for gen_seq: all calls, they precede "
        "the open of the output); then the job is re-run in a pristine child for EVERY k in 1..N (gen_params, gen_seq) with "
        "SimCrash(BaseException) raised at call k; for gen_coords (N ~ 1e4-1e5) k ranges over the first call of every distinct "
        "(file, function) - which contains every stage boundary - plus a seeded sample, denser after the first deferred_open; "
        "after the crash 1-2 further operations (one successful, to another path) run in the same process. Natural failures "
        "(unknown block, broken file) are run the same way. Oracle: directory snapshots (names, sizes, SHA-256) at the crash "
        "instant (= what process death would leave), after the failed call and after each later operation are unchanged except "
        "for outputs of operations that succeeded; after success the file is complete, the previous content is byte-identical at "
        "the next free #name.i#, older backups untouched. One gen_params job per batch (24 in thorough) has EVERY call boundary "
        "crashed, split over 8 chunk jobs. Additional injected fault: the publishing os.rename out of the temp directory fails "
        "with EXDEV (temp dir on another file system) - the published file must equal the fault-free one. An injected failure "
        "that is swallowed (the call returns normally) counts as a success that must have published the complete file. Output "
        "paths are absolute, relative or through a '..' detour; cwd varies. evaluations = crash runs; non-trivial+distinct = "
        "distinct (program, file:function) sites at which a crash actually fired")
ASSUMPTIONS = ["an exception raised at a call boundary stands for any failure at that stage (bad input found late, MemoryError, "
               "KeyboardInterrupt, ENOSPC); byte-level torn writes of the final rename are not modelled (vermouth publishes by rename)",
               "temp files are not output files: they may exist under the run's private TMPDIR"]
REAL_VS_STUB = {"real": ["gen_params, gen_seq, gen_coords end to end, vermouth DeferredFileWriter, real file system"],
                "stub": ["tqdm disabled", "sys.argv pinned", "sys.settrace crash injector"]}
PROBES = ["rerun_over_own_earlier_output", "gmx_maxbackup_minus_one", "backups_without_output_file", "publishing_move_fails_once", "output_path_is_symlink", "publish_across_filesystems", "relative_output_path", "crash_between_open_and_write", "existing_file", "existing_backups", "later_success_other_path",
          "natural_failure", "prog_gen_params", "prog_gen_seq", "prog_gen_coords", "success_backup_checked"]
EXHAUSTIVE = {}


JOB_TIMEOUT = 900          # one job = one operation and ALL its crash runs
NCHUNK = 8
NEXH = {"quick": 1, "thorough": 24}        # gen_params jobs whose EVERY call boundary is crashed (split in NCHUNK chunks)
NREG = {"quick": 18, "thorough": 600}
SELFTEST_K = {"quick": 4, "thorough": 8}


def n_runs(tier):
    return NEXH[tier] * NCHUNK + NREG[tier]


COORD_PROFILE = {"n_moltypes": (1, 2), "n_entries": (1, 2), "max_molecules": 3, "max_count": 2, "maxres": 4,
                 "box_modes": ["cubic"], "vsites": False, "max_atoms": 2, "density": 0}


def _base_op(g, prog, st, verif_seed, index):
    if prog == "gen_params":
        ff = ffgen.gen_ff(g)
        if ff["links"] and g.random() < 0.4:
            # an [ error ] level message of the force field on the first link (logged, nothing more)
            ff["links"][0]["sections"]["error"] = [{"atoms": ["parameters of this link are provisional"], "params": [], "meta": {}}]
        rg = ffgen.gen_resgraph(g, ff, maxn=6)
        # (some output names have no extension: the file has to appear under exactly the name that was asked for)
        op = histgen.make_op(ff, rg, g, out=g.choice(["res/out.itp", "res/out.itp", "res/polymer", "res/PEO_1.5k"]))
        op["stop_at"] = ["file_writer.py", "write"]
        return op
    if prog == "gen_seq":
        n = g.randint(2, 5)
        return {"op": "gen_seq", "name": "s", "out": "res/seq.json", "seq": ["A", "B"],
                "macros": [f"A:{n}:1:RA-1.0", f"B:{g.randint(1, 3)}:{g.randint(1, 2)}:RB-1.0"], "connects": ["0:1:0-0"]}
    job, jst = jobgen.base_job("C20gc", verif_seed, "quick", index, COORD_PROFILE)
    op = {"op": "gen_coords", "spec": job["spec"], "opts": {"box": job["opts"]["box"]},
          "out": g.choice(["res/out.gro", "res/out.gro", "res/conf.pdb", "res/CONF.PDB"]),
          "seed": g.getrandbits(16), "stop_at": ["file_writer.py", "write"]}
    r = g.random()
    if r < 0.35:
        # part of an earlier build supplied with -c: the "loading coordinates" stage is in the pipeline
        job["tape"] = {}
        if jobgen.add_coordinates(job, jst.gen, {"coord_modes": ["prefix", "res"]}) and job.get("coord_ext") != "pdb":
            op["coord_text"] = job["coord_text"]
            if job["opts"].get("build_res"):
                op["build_res"] = job["opts"]["build_res"]
            op["opts"] = {"box": job["coord_box"]}
    elif r < 0.6:
        from gen import bldgen
        op["build_text"] = bldgen.render(bldgen.gen_build_spec(g, job["spec"], job["opts"]["box"], ["geom", "rw"]))
    return op


def gen_job(verif_seed, tier, index):
    chunk = None
    nexh = NEXH[tier] * NCHUNK
    if index < nexh:
        base_index, chunk = divmod(index, NCHUNK)
        seed = run_seed(PROP + "exh", verif_seed, base_index)
        prog = "gen_params"
    else:
        seed = run_seed(PROP, verif_seed, index)
        prog = ["gen_params", "gen_seq", "gen_coords"][index % 3]
    st = Streams(seed)
    g = st.gen
    op = _base_op(g, prog, st, verif_seed, index)
    pre = []
    state = g.choice(["absent", "file", "file+backups", "symlink", "backups-only"] if prog != "gen_seq"
                     else ["absent", "file", "file+backups"])
    base = op["out"].split("/")[-1]
    links = []
    if state == "symlink":
        # the output path is a symbolic link to another file of the directory: the link is what gets backed up
        # (GROMACS style), the file it points to must stay untouched
        pre.append(["res/run1.dat", f"previous content {g.getrandbits(40)}\n"])
        links.append([op["out"], "run1.dat"])
    elif state not in ("absent", "backups-only"):
        # a quarter of the existing files are empty (0 bytes) - they are files all the same
        pre.append([op["out"], f"previous content {g.getrandbits(40)}\n" if g.random() < 0.75 else ""])
    if state in ("file+backups", "backups-only"):
        # (backups-only: earlier runs left #name.N# files behind, the output itself was moved away since)
        for k in range(1, g.randint(2, 3)):
            pre.append([f"res/#{base}.{k}#", f"backup {k} {g.getrandbits(40)}\n"])
    op["pre_files"] = pre
    op["pre_links"] = links
    op["relpath"] = g.choice([None, None, True, "dotdot", "symlink_dotdot"])
    if g.random() < 0.3:
        op["cwd"] = g.choice(["wd", "res"])
    # follow-up operations in the same process
    ff2 = ffgen.gen_ff(g)
    follow = [histgen.make_op(ff2, ffgen.gen_resgraph(g, ff2, maxn=4), g, out="res/later.itp")]
    if g.random() < 0.5:
        follow.append(dict(op, pre_files=[], pre_links=[], crash_at=None))      # the failed job again, now succeeding
    natural = g.random() < 0.5 and prog == "gen_params"
    return {"index": index, "run_seed": seed, "prog": prog, "op": op, "follow": follow, "state": state,
            "hashseed": st.env.choice(histgen.PALETTE), "natural": natural,
            "sample_k": 60 if tier == "quick" else 250,
            # every call boundary for the first jobs of gen_params / gen_seq (and all small ones)
            "exhaustive_limit": 100000 if chunk is not None else (600 if prog == "gen_seq" else 300),
            "chunk": chunk}


def _check_failed(job, pre_map, r, later, k):
    """r = result of the failed op, later = results of follow-up ops"""
    viols = []
    out = job["op"]["out"]
    facts = {"failed_op_before": True, "k": k, "where": r.get("where")}
    inst = r.get("instant")
    for label, created, modified, removed in (("at the crash instant", (inst or {}).get("created", []),
                                               (inst or {}).get("modified", []), (inst or {}).get("removed", [])),
                                              ("after the failed call", r["created"], r["modified"], r["removed"])):
        for f in created:
            if f.startswith("res/"):
                viols.append(("fail.created", f"{job['prog']} failed at call {k} ({r.get('where')}) but {f} exists {label}", facts))
        for f in list(modified) + list(removed):
            if f.startswith("res/"):
                viols.append(("fail.modified", f"{job['prog']} failed at call {k} ({r.get('where')}) but {f} was "
                                               f"{'modified' if f in modified else 'removed'} {label}", facts))
    # later operations may only touch their own outputs
    for fo, lr in zip(job["follow"], later):
        own = fo["out"]
        own_base = own.split("/")[-1]
        for f in lr["created"] + lr["modified"] + lr["removed"]:
            if not f.startswith("res/"):
                continue
            name = f.split("/")[-1]
            if f == own or (name.startswith("#" + own_base + ".") and lr["status"] == "ok"):
                continue
            viols.append(("later.published", f"{job['prog']} failed at call {k} ({r.get('where')}); a later "
                                             f"{'successful' if lr['status'] == 'ok' else 'failed'} call writing {own} "
                                             f"changed {f}", facts))
    return viols


def _check_success(job, pre_map, r):
    viols = []
    out = job["op"]["out"]
    base = out.split("/")[-1]
    if r.get("out_text") is None:
        return [("success.incomplete", f"{job['prog']} succeeded but {out} does not exist", {})]
    text = r["out_text"]
    if job["prog"] == "gen_params":
        from worlds.params_world import parse_itp_text
        p = parse_itp_text(text)
        if not p["atoms"] or p["moleculetype"] is None:
            viols.append(("success.incomplete", f"{out} has no atoms / moleculetype", {}))
    elif job["prog"] == "gen_seq":
        import json
        try:
            d = json.loads(text)
            if not d.get("nodes"):
                viols.append(("success.incomplete", f"{out} has no nodes", {}))
        except Exception as err:
            viols.append(("success.incomplete", f"{out} is not valid JSON: {err}", {}))
    else:
        lines = text.rstrip("\n").split("\n")
        try:
            n = int(lines[1])
            if len(lines) != n + 3:
                viols.append(("success.incomplete", f"{out} announces {n} atoms but has {len(lines)} lines", {}))
        except Exception as err:
            viols.append(("success.incomplete", f"{out} unreadable: {err}", {}))
    if job["state"] == "symlink" and job["prog"] in ("gen_params", "gen_coords"):
        # the previous directory entry (the link) is kept as backup: its content is the old content of the target
        got = r["backups"].get(f"#{base}.1#")
        if got != pre_map.get("res/run1.dat"):
            viols.append(("success.backup", f"{out} was a link to run1.dat; the previous entry is not kept at #{base}.1# "
                                            f"(found {got!r:.50})", {}))
    for f in r.get("modified", []) + r.get("removed", []):
        if f.startswith("res/") and f != out and f in pre_map:
            viols.append(("success.clobbered-other", f"{job['prog']} succeeded writing {out} but the existing file {f} was "
                                                     f"{'modified' if f in r.get('modified', []) else 'removed'}", {}))
    if job["prog"] in ("gen_params", "gen_coords"):
        if out in pre_map:
            k = 1
            while f"res/#{base}.{k}#" in pre_map:
                k += 1
            got = r["backups"].get(f"#{base}.{k}#")
            if got != pre_map[out]:
                viols.append(("success.backup", f"previous content of {out} is not kept byte-identical at #{base}.{k}# "
                                                f"(found {got!r:.60})", {}))
        for f, content in pre_map.items():
            name = f.split("/")[-1]
            if name.startswith("#") and r["backups"].get(name) != content:
                viols.append(("success.old-backups", f"older backup {name} was changed", {}))
    return viols


def run_job(job):
    hs = job["hashseed"]
    op = job["op"]
    pre_map = {f: c for f, c in op.get("pre_files", [])}
    probes = {"prog_" + job["prog"]: 1}
    viols = []
    nt = set()
    evals = 0
    if job["state"] == "symlink":
        probes["output_path_is_symlink"] = 1
    if op.get("relpath"):
        probes["relative_output_path"] = 1
    if job["state"] not in ("absent", "backups-only"):
        probes["existing_file"] = 1
    if job["state"] in ("file+backups", "backups-only"):
        probes["existing_backups"] = 1
    if job["state"] == "backups-only":
        probes["backups_without_output_file"] = 1
    # ---- calibration: fault-free traced run
    cal = zygotes.run_history(hs, {"ops": [dict(op, count_calls=True)], "roundtrip": False}, timeout=300)["ops"][0]
    if cal["status"] != "ok":
        return {"status": "harness_error", "violations": [], "error": f"calibration run failed: {cal.get('error')} {cal.get('where')}"}
    for clause, msg, facts in _check_success(job, pre_map, cal):
        viols.append({"property": PROP, "clause": clause, "msg": msg, "seq": 0, "facts": facts})
    probes["success_backup_checked"] = 1 if op["out"] in pre_map else 0
    n = cal["calls_before_stop"] if cal.get("calls_before_stop") is not None else cal["calls"]
    sites = cal.get("sites") or []
    open_at = next((c for c, f, fn in sites if f == "file_writer.py" and fn in ("open", "_open_tmp_file")), None)
    if n <= job.get("exhaustive_limit", 400):
        ks = list(range(1, n + 1))
        exhaustive = True
        if job.get("chunk") is not None:
            ks = ks[job["chunk"]::NCHUNK]
    else:
        import random
        r = random.Random(job["run_seed"])
        ks = sorted({c for c, f, fn in sites if c <= n})
        extra = set()
        while len(extra) < job["sample_k"]:
            if open_at and r.random() < 0.5:
                extra.add(r.randint(open_at, n))
            else:
                extra.add(r.randint(1, n))
        ks = sorted(set(ks) | extra)
        exhaustive = False
    h = hashlib.sha256()
    fired = 0
    for k in ks:
        # every other crash point raises an ordinary Exception instead of a BaseException (both kinds of handler in
        # the code under test are then exercised)
        hist = {"ops": [dict(op, crash_at=k, snapshot_at_crash=True, crash_exc="ordinary" if k % 2 else "base")]
                + job["follow"], "roundtrip": False}
        res = zygotes.run_history(hs, hist, timeout=300)
        r = res["ops"][0]
        evals += 1
        h.update(dumps([k, r["status"], r.get("where"), r["created"], r["modified"]]).encode())
        if r["status"] == "ok" and r.get("fired_where"):
            # the injected failure did fire but was swallowed: the call returned as if it had succeeded,
            # so "when it succeeds the complete file is in place" has to hold
            nt.add(f"{job['prog']}:{r.get('fired_where')}")
            if r.get("out_text") != cal.get("out_text") and not any(v["clause"] == "success.incomplete" for v in viols):
                viols.append({"property": PROP, "clause": "success.incomplete", "seq": k,
                              "facts": {"k": k, "where": r.get("fired_where"), "swallowed": True},
                              "msg": f"{job['prog']}: a failure at call {k} ({r.get('fired_where')}) was swallowed - the call "
                                     f"returned normally but {op['out']} is "
                                     f"{'missing' if r.get('out_text') is None else 'not the complete file'}"})
            continue
        if r["status"] != "crash":
            # tracing changes nothing in the call sequence; a run that does not reach call k is a harness problem
            return {"status": "harness_error", "violations": [],
                    "error": f"crash point {k} of {n} not reached: status {r['status']} {r.get('error')}"}
        fired += 1
        nt.add(f"{job['prog']}:{r.get('where')}")
        if open_at and k >= open_at:
            probes["crash_between_open_and_write"] = probes.get("crash_between_open_and_write", 0) + 1
        if any(x["status"] == "ok" for x in res["ops"][1:]):
            probes["later_success_other_path"] = probes.get("later_success_other_path", 0) + 1
        for clause, msg, facts in _check_failed(job, pre_map, r, res["ops"][1:], k):
            if not any(v["clause"] == clause for v in viols):
                viols.append({"property": PROP, "clause": clause, "msg": msg, "seq": k, "facts": facts})
        # the follow-up that repeats the failed job must now succeed and publish correctly
        for fo, lr in zip(job["follow"], res["ops"][1:]):
            if fo["out"] == op["out"] and lr["status"] == "ok":
                for clause, msg, facts in _check_success(job, pre_map, lr):
                    if not any(v["clause"] == clause for v in viols):
                        viols.append({"property": PROP, "clause": clause, "msg": "after an earlier failed attempt: " + msg,
                                      "seq": k, "facts": dict(facts, failed_op_before=True)})
    # ---- publishing across file systems (rename -> EXDEV -> copy): the published file must be complete
    if job["prog"] in ("gen_params", "gen_coords"):
        res = zygotes.run_history(hs, {"ops": [dict(op, exdev=True)], "roundtrip": False}, timeout=300)
        r = res["ops"][0]
        evals += 1
        probes["publish_across_filesystems"] = 1
        nt.add(f"{job['prog']}:exdev")
        if r["status"] != "ok":
            viols.append({"property": PROP, "clause": "success.incomplete", "seq": 0, "facts": {"exdev": True},
                          "msg": f"{job['prog']} fails when the temporary directory is on another file system: {r.get('error')}"})
        else:
            if r.get("out_text") != cal.get("out_text"):
                a, b = len(r.get("out_text") or ""), len(cal.get("out_text") or "")
                viols.append({"property": PROP, "clause": "success.incomplete", "seq": 0, "facts": {"exdev": True},
                              "msg": f"{job['prog']} succeeded with the temporary directory on another file system but the "
                                     f"published file differs from the complete one ({a} of {b} bytes)"})
            for clause, msg, facts in _check_success(job, pre_map, r):
                if not any(v["clause"] == clause for v in viols):
                    viols.append({"property": PROP, "clause": clause, "msg": "[exdev] " + msg, "seq": 0, "facts": facts})
    # ---- the file already at the output path is the result of the same job (a re-run): it is a previous file like any
    # other - backed up, and the new file put in place
    if job["prog"] in ("gen_params", "gen_coords") and cal.get("out_text"):
        pre2 = [[f, c] for f, c in (op.get("pre_files") or []) if f != op["out"]] + [[op["out"], "; earlier run\n" + cal["out_text"]]]
        job2 = dict(job, op=dict(op, pre_files=pre2, pre_links=[]), state="file")
        pm2 = {f: c for f, c in pre2}
        res = zygotes.run_history(hs, {"ops": [job2["op"]], "roundtrip": False}, timeout=300)
        r = res["ops"][0]
        evals += 1
        probes["rerun_over_own_earlier_output"] = 1
        if r["status"] != "ok":
            viols.append({"property": PROP, "clause": "success.incomplete", "seq": 0, "facts": {"rerun": True},
                          "msg": f"{job['prog']} fails when its own earlier output lies at the output path: {r.get('error')}"})
        else:
            if r.get("out_text") != cal.get("out_text"):
                viols.append({"property": PROP, "clause": "success.incomplete", "seq": 0, "facts": {"rerun": True},
                              "msg": f"{job['prog']} succeeded over its own earlier output but {op['out']} does not hold the new file"})
            for clause, msg, facts in _check_success(job2, pm2, r):
                if not any(v["clause"] == clause for v in viols):
                    viols.append({"property": PROP, "clause": clause, "msg": "[re-run] " + msg, "seq": 0, "facts": facts})
    # ---- environment: GMX_MAXBACKUP=-1 (GROMACS' switch for "no backups") must not make polyply drop the previous file
    if job["prog"] in ("gen_params", "gen_coords") and op["out"] in pre_map:
        res = zygotes.run_history(hs, {"ops": [dict(op, env={"GMX_MAXBACKUP": "-1"})], "roundtrip": False}, timeout=300)
        r = res["ops"][0]
        evals += 1
        probes["gmx_maxbackup_minus_one"] = 1
        if r["status"] == "ok":
            for clause, msg, facts in _check_success(job, pre_map, r):
                if not any(v["clause"] == clause for v in viols):
                    viols.append({"property": PROP, "clause": clause, "msg": "[GMX_MAXBACKUP=-1] " + msg, "seq": 0, "facts": facts})
        else:
            viols.append({"property": PROP, "clause": "success.incomplete", "seq": 0, "facts": {"env": True},
                          "msg": f"{job['prog']} fails with GMX_MAXBACKUP=-1 in the environment: {r.get('error')}"})
    # ---- the publishing move itself fails once (transient OSError): a failure DURING writing is outside the failure
    # clause ("before writing"), so a failed call is judged only through what later calls publish; a call that returns
    # normally (e.g. after a retry) must have put the complete file in place
    if job["prog"] in ("gen_params", "gen_coords", "gen_seq"):
        res = zygotes.run_history(hs, {"ops": [dict(op, move_fails=True)] + job["follow"], "roundtrip": False}, timeout=300)
        r = res["ops"][0]
        evals += 1
        probes["publishing_move_fails_once"] = 1
        nt.add(f"{job['prog']}:move_fails:{r['status']}")
        if r["status"] == "ok":
            if r.get("out_text") != cal.get("out_text"):
                viols.append({"property": PROP, "clause": "success.incomplete", "seq": 0, "facts": {"move_fails": True},
                              "msg": f"{job['prog']} returned normally although the publishing move failed once, and the "
                                     f"complete file is not at {op['out']}"})
            for clause, msg, facts in _check_success(job, pre_map, r):
                if not any(v["clause"] == clause for v in viols):
                    viols.append({"property": PROP, "clause": clause, "msg": "[move failed once] " + msg, "seq": 0, "facts": facts})
        else:
            for clause, msg, facts in _check_failed(job, pre_map, r, res["ops"][1:], "move"):
                if clause == "later.published" and not any(v["clause"] == clause for v in viols):
                    viols.append({"property": PROP, "clause": clause, "msg": msg, "seq": 0, "facts": facts})
    if job.get("natural"):
        ff = ffgen.gen_ff(__import__("random").Random(job["run_seed"]))
        bad = histgen.failing_op(__import__("random").Random(job["run_seed"] + 1), ff,
                                 ffgen.gen_resgraph(__import__("random").Random(job["run_seed"] + 2), ff), out=op["out"])
        bad["pre_files"] = op.get("pre_files", [])
        res = zygotes.run_history(hs, {"ops": [bad] + job["follow"], "roundtrip": False})
        r = res["ops"][0]
        evals += 1
        if r["status"] != "ok":
            probes["natural_failure"] = 1
            nt.add(f"{job['prog']}:natural:{r.get('where')}")
            for clause, msg, facts in _check_failed(job, pre_map, r, res["ops"][1:], "natural"):
                if not any(v["clause"] == clause for v in viols):
                    viols.append({"property": PROP, "clause": clause, "msg": msg, "seq": 0, "facts": facts})
    digest = h.hexdigest()[:24]
    return {"status": "violation" if viols else "ok", "violations": viols[:6], "digest": digest, "events": cal["calls"],
            "signature": f"{job['prog']}:{n}", "nt_keys": sorted(nt), "nontrivial": True, "evals": evals,
            "faults": {"crash_injected": fired, "exdev_on_publish": probes.get("publish_across_filesystems", 0),
                       "natural_failure": probes.get("natural_failure", 0)}, "probes": probes,
            "sample": {"prog": job["prog"], "calls_before_publish": n, "crash_points": len(ks),
                       "every_call_boundary": exhaustive, "existing_state": job["state"],
                       "first_sites": [f"{f}:{fn}" for _, f, fn in sites[:12]]}}


def reductions(job):
    if job["follow"]:
        for i in range(len(job["follow"])):
            cand = dict(job)
            cand["follow"] = job["follow"][:i] + job["follow"][i + 1:]
            yield cand
    if job["op"].get("pre_files"):
        cand = dict(job)
        cand["op"] = dict(job["op"], pre_files=[], pre_links=[])
        cand["state"] = "absent"
        yield cand

"""Shared plumbing of the world-A checks."""
from gen import jobgen
from worlds import placement_world

REAL_VS_STUB = {
    "real": ["polyply gen_coords end to end: Topology.from_gmx_topfile, preprocess, add_positions_from_file, "
             "build-file parser, GenerateTemplates + minimiser + virtual-site builder, AnnotateLigands, BuildSystem, "
             "RandomWalk, NonBondEngine, restraints, persistence sampling, Backmap, vermouth write_gro + "
             "DeferredFileWriter, scipy KD-trees and L-BFGS, the real file system (per-run scratch directory)"],
    "stub": ["tqdm progress bars disabled", "np.random.seed(None)/random.seed(None) answered from the run's sys stream",
             "buggify seams: RandomWalk.update_positions/_is_overlap forced rejections, optimize_geometry forced 'failed' "
             "verdict, backmap's scipy.optimize.minimize result replaced by tape-chosen angle triples"]}
ASSUMPTIONS = ["numpy/scipy/networkx/vermouth trusted as libraries",
               "workloads are sampled by a hand-written generator with small bounds (<= 3 molecule types, <= 12 molecules, "
               "<= 10 residues per molecule, <= 4(+1 virtual site) atoms per residue)",
               "forced faults only ever reject placements, never accept them, so no oracle is relaxed under faults"]
PROBES = ["rewind_taken", "attempt_abandoned", "step_wrapped_across_boundary", "placed_with_neighbours_in_cutoff",
          "two_or_more_templates", "backmapped_multi_atom_residue"]


def sample_of(job):
    return {"molecules": job["spec"]["molecules"],
            "moltypes": [{"name": m["name"], "shape": m["shape"], "residues": m["residues"]} for m in job["spec"]["moltypes"]],
            "opts": job["opts"], "fault_density": job.get("fault_density"),
            "tape": {k: "".join(map(str, v))[:60] + ("..." if len(v) > 60 else "") for k, v in job["tape"].items()},
            "has_coords": job.get("coord_kind"), "build_file": (job.get("build_file") or "")[:300]}


def run_and_tag(job, nontrivial):
    res = placement_world.run(job)
    res["nontrivial"] = bool(nontrivial(job, res))
    res["ntkey"] = res["digest"] if res["nontrivial"] else ""
    res["sample"] = sample_of(job)
    return res


def has_fault_symbol(res):
    return any(c in res["signature"] for c in "FENRXsn")

"""C17 - failed placements are rolled back completely; accepted ones never move."""
from simkit.core import Streams, run_seed
from gen import jobgen, topgen
from checks import _world_a as wa

PROP = "C17"
LEVEL = "fault_enumeration"
NSYS = {"quick": 6, "thorough": 24}
LSTEP = {"quick": 8, "thorough": 12}
MATT = 6
NSAMPLED = {"quick": 400, "thorough": 60000}
RULE = ("two modes. ENUMERATED: for each of N fixed systems (quick 6, thorough 24: chains of 3-8, stars, combs, trees, one "
        "ring; 1-4 molecules; half of them with pre-positioned residues from an earlier build; -nr 1..5, -mi 0..2) ALL "
        "success/failure tapes in {ok,fail}^L for the first L placement-step decisions (quick L=8: 256, thorough L=12: 4096) "
        "and ALL tapes in {ok,fail}^6 for whole attempts (an attempt marked fail has every step fail from its half-way point "
        "until it is abandoned), ALL ternary tapes {ok, fail, every-candidate-rejected}^5 (thorough ^7: the organic route into "
        "the rewind) and ALL start-rejection tapes {ok,reject}^5, after which faults stop. SAMPLED: long bursty tapes (step fails, exhausted steps, rejected "
        "starts, rejected candidates) on larger systems. Invariants at the event where they can first fail: grown-from "
        "positioned neighbour, positioned generated residues == growth-order prefix, clean state and supplied residues intact "
        "after every failed attempt, no double add, accepted molecules untouched, final state positioned exactly once (runs that "
        "make no progress within the step cap after the tape ends are counted, not judged). non-trivial = the schedule contains a fault symbol; distinct = distinct "
        "(schedule signature, event-log digest). Exhaustive over tapes of length L for the chosen systems, not over systems")
ASSUMPTIONS = wa.ASSUMPTIONS
REAL_VS_STUB = wa.REAL_VS_STUB
PROBES = wa.PROBES + ["ligands_built_with_their_hosts", "second_run_system_on_complete_system", "large_system_second_tree", "interior_kept_residues", "start_option", "cycles_option", "supplied_and_generated_in_one_system", "enumerated_step_tape", "enumerated_attempt_tape",
                      "enumerated_ternary_step_tape", "enumerated_start_tape"]
SYS_PROFILE = {"shapes": ["linear", "linear", "star", "comb", "ring", "tree"], "maxres": 8, "max_molecules": 4,
               "max_count": 2, "n_entries": (1, 2), "box_modes": ["cubic", "noncubic"], "vsites": False,
               "max_atoms": 2, "density": 0, "nrewind": [1, 2, 3, 4, 5], "maxiter": [0, 1, 2], "p_mi": 1.0,
               "p_gs": 0.2, "p_sf": 0.2, "p_mf": 0.0, "p_bf": 0.0, "p_mir": 0.3, "dilute_hint": True}
SAMPLED_PROFILE = {"shapes": ["linear", "linear", "star", "comb", "ring", "tree"], "maxres": 10, "max_molecules": 6,
                   "max_count": 3, "n_entries": (1, 3), "box_modes": ["cubic", "noncubic"], "vsites": False,
                   "max_atoms": 2, "faults": ["step", "start", "overlap"], "nrewind": [1, 2, 3, 4, 5],
                   "maxiter": [0, 1, 2, 800], "dilute_hint": True}
_SYS_CACHE = {}


L3 = {"quick": 5, "thorough": 7}          # ternary step tapes {ok, fail, all-candidates-rejected}^L3
LSTART = 5                                  # binary start-rejection tapes


def _per(tier):
    return 2 ** LSTEP[tier] + 2 ** MATT + 3 ** L3[tier] + 2 ** LSTART


def n_runs(tier):
    return NSYS[tier] * _per(tier) + NSAMPLED[tier]


def _system(verif_seed, s):
    key = (verif_seed, s)
    if key not in _SYS_CACHE:
        job, st = jobgen.base_job("C17sys", verif_seed, "sys", s, SYS_PROFILE)
        job["tape"] = {}
        if s % 3 == 2:
            job["spec"]["restypes"].setdefault("RB", dict(job["spec"]["restypes"]["RA"], name="RB",
                                                          atoms=[dict(a, name="B" + a["name"][1:]) for a in job["spec"]["restypes"]["RA"]["atoms"]]))
            jobgen.make_interior_kept(job, st.gen)
        elif s % 2 == 1:
            jobgen.add_coordinates(job, st.gen, {"coord_modes": ["prefix", "prefix", "res", "res_prefix", "meta_prefix"]})
        _SYS_CACHE.clear()
        _SYS_CACHE[key] = job
    import copy
    return copy.deepcopy(_SYS_CACHE[key])


def gen_job(verif_seed, tier, index):
    nenum = NSYS[tier] * _per(tier)
    if index >= nenum:
        job, st = jobgen.base_job(PROP, verif_seed, tier, index, SAMPLED_PROFILE)
        if st.gen.random() < 0.012 and jobgen.make_large_system(job, st.gen):
            job["mode"] = "sampled"
            return job
        r = st.gen.random()
        if r < 0.15 and len(job["spec"]["restypes"]) >= 2:
            jobgen.make_interior_kept(job, st.gen)
        elif r < 0.45:
            jobgen.add_coordinates(job, st.gen, {"coord_modes": ["prefix", "prefix", "res", "res_prefix", "meta_prefix"]})
        g = st.gen
        rings = sorted({m["name"] for m in job["spec"]["moltypes"] if m["shape"] == "ring"
                        and any(n == m["name"] for n, _ in job["spec"]["molecules"])})
        if rings and g.random() < 0.6:
            job["opts"]["cycles"] = rings
            job["opts"]["cycle_tol"] = g.choice([0.0, 0.2])
        if job.get("coord_text") is None and g.random() < 0.3:
            jobgen.add_start(job, g)
        if job.get("coord_text") is None and not job["opts"].get("start") and g.random() < 0.06 \
                and jobgen.prepare_ligands(job, g, lig_first=g.random() < 0.4):
            # -lig without any input structure: hosts (sometimes rings named in -cycles) and ligands are all built
            job["opts"].setdefault("box", [8.0, 8.0, 8.0]) if "density" not in job["opts"] else None
            if jobgen.finish_ligands(job, g):
                job["ligands_all_built"] = True
            else:
                job["opts"].pop("cycles", None) if job.get("ligand_on_cyclic_host") else None
        if g.random() < 0.05:
            # few trial vectors per step (-mir 5) and a long tape of scattered step failures: one attempt goes through
            # many fail / rewind / re-place cycles (far more steps than residues)
            from simkit.core import draw_lane
            job["opts"]["maxiter_random"] = 5
            job["opts"]["nrewind"] = 2
            job["tape"]["step"] = draw_lane(st.tape, 600, 0.45, False)     # ~0.1 residues of net progress per step
            job["long_rewind_tape"] = True
        if g.random() < 0.1:
            job["rerun_build"] = True        # BuildSystem.run_system called a second time on the complete system
        job["mode"] = "sampled"
        return job
    s, k = divmod(index, _per(tier))
    job = _system(verif_seed, s)
    job["index"] = index
    job["run_seed"] = run_seed(PROP, verif_seed, s)        # same RNG for all tapes of one system
    L = LSTEP[tier]
    if k < 2 ** L:
        job["tape"] = {"step": [(k >> b) & 1 for b in range(L)]}
        job["mode"] = "enum_step"
    elif k < 2 ** L + 2 ** MATT:
        k -= 2 ** L
        job["tape"] = {"attempt": [(k >> b) & 1 for b in range(MATT)]}
        job["mode"] = "enum_attempt"
    elif k < 2 ** L + 2 ** MATT + 3 ** L3[tier]:
        k -= 2 ** L + 2 ** MATT
        lane = []
        for _ in range(L3[tier]):
            k, d = divmod(k, 3)
            lane.append(d)
        job["tape"] = {"step": lane}
        job["mode"] = "enum_step3"
    else:
        k -= 2 ** L + 2 ** MATT + 3 ** L3[tier]
        job["tape"] = {"start": [(k >> b) & 1 for b in range(LSTART)]}
        job["mode"] = "enum_start"
    job["system"] = s
    return job


def _tag(job, res):
    if job.get("mode") == "enum_step":
        res["probes"]["enumerated_step_tape"] = 1
    elif job.get("mode") == "enum_attempt":
        res["probes"]["enumerated_attempt_tape"] = 1
    elif job.get("mode") == "enum_step3":
        res["probes"]["enumerated_ternary_step_tape"] = 1
    elif job.get("mode") == "enum_start":
        res["probes"]["enumerated_start_tape"] = 1
    if job.get("large_system"):
        res["probes"]["large_system_second_tree"] = 1
    if job.get("ligands_all_built"):
        res["probes"]["ligands_built_with_their_hosts"] = 1
    if job.get("interior_kept"):
        res["probes"]["interior_kept_residues"] = 1
    if job["opts"].get("start"):
        res["probes"]["start_option"] = 1
    if job["opts"].get("cycles"):
        res["probes"]["cycles_option"] = 1
    return wa.has_fault_symbol(res)


def run_job(job):
    res = wa.run_and_tag(job, _tag)
    res["ntkey"] = res["digest"] if res["nontrivial"] else ""
    res["sample"]["mode"] = job.get("mode")
    return res


def extra_evidence(results, tier):
    return {"enumerated": {"systems": NSYS[tier], "step_tape_length": LSTEP[tier],
                           "step_tapes_per_system": 2 ** LSTEP[tier], "attempt_tapes_per_system": 2 ** MATT,
                           "ternary_step_tapes_per_system": 3 ** L3[tier], "start_tapes_per_system": 2 ** LSTART,
                           "sampled_runs": NSAMPLED[tier]}}


reductions = jobgen.reductions

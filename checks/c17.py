"""C17 - failed placements are rolled back completely; accepted ones never move."""
from gen import jobgen
from worlds import placement_world

PROP = "C17"
LEVEL = "fault_enumeration"
RULE = "tbd"
PROFILE = {"shapes": ["linear", "linear", "star", "comb", "ring", "tree"], "maxres": 8, "max_molecules": 4,
           "max_count": 2, "n_entries": (1, 2), "box_modes": ["cubic", "noncubic"], "vsites": False,
           "max_atoms": 2, "faults": ["step", "start", "overlap"], "nrewind": [1, 2, 3, 4, 5],
           "maxiter": [0, 1, 2], "dilute_hint": True}


def n_runs(tier):
    return 400 if tier == "quick" else 50000


def gen_job(verif_seed, tier, index):
    job, st = jobgen.base_job(PROP, verif_seed, tier, index, PROFILE)
    return job


def run_job(job):
    res = placement_world.run(job)
    sig = res["signature"]
    res["nontrivial"] = any(c in sig for c in "FENRXs")
    res["ntkey"] = ""
    res["sample"] = {"molecules": job["spec"]["molecules"], "opts": job["opts"],
                     "tape": {k: "".join(map(str, v))[:80] for k, v in job["tape"].items()}}
    return res


reductions = jobgen.reductions

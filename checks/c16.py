"""C16 - the neighbour engine always reflects exactly the currently positioned residues.

World B: seeded operation histories on the real NonBondEngine against a brute-force
reference model (worlds/engine_world.py)."""
from simkit.core import Streams, run_seed
from worlds import engine_world

PROP = "C16"
LEVEL = "exploration"
RULE = ("seeded operation histories (add start/non-start, remove incl. undefined/repeated/whole molecule, "
        "consolidate, force/position/min-image queries, write-back) on a real NonBondEngine built by "
        "from_topology; swarm-style op mix per run; 10-15% of the runs start with 4990-5010 positioned "
        "residues so that start-adds cross the 5000 threshold; a run is non-trivial if its history has "
        ">= 3 distinct operation kinds; distinct = distinct event-log digests")
ASSUMPTIONS = ["scipy KDTree with boxsize is trusted as a library",
               "re-adding an already positioned residue without removing it first is outside the engine's contract "
               "and is never generated",
               "only the nearest periodic image of a residue is considered (as the periodic KD-tree does); 12% of the small "
               "configurations have one box edge shorter than two cut-offs"]
REAL_VS_STUB = {"real": ["polyply.src.nonbond_engine.NonBondEngine (from_topology, add/remove/concatenate, "
                         "compute_force_point, pbc_min_dist, get_point, get_interaction, update_positions_in_molecules)",
                         "scipy.spatial.KDTree"],
                "stub": ["molecules are plain networkx graphs with resname/position attributes",
                         "topology is an object with .volumes/.bending only"]}
PROBES = ["new_tree_opened", "tree_emptied", "concatenate_multi", "pair_across_boundary", "floor_hit",
          "remove_undefined", "remove_repeated", "multi_tree_state", "force_pairs", "whitebox_views",
          "world_A_shadow_runs", "overlap_verdict_shadowed", "concatenate", "remove_given_as_iterator"]


def n_runs(tier):
    return 1200 if tier == "quick" else 200000


def _r6(x):
    return round(float(x), 6)


def _rand_point(g, box, positioned, cut):
    mode = g.random()
    if positioned and mode < 0.5:
        ref = g.choice(positioned)
        while True:
            d = [g.gauss(0, 1) for _ in range(3)]
            n = sum(x * x for x in d) ** 0.5
            if n > 1e-6:
                break
        r = g.choice([g.uniform(0.02, 0.12), g.uniform(0.1, cut), g.uniform(0.3 * cut, 1.05 * cut)])
        return [_r6((ref[i] + d[i] / n * r) % box[i]) % box[i] for i in range(3)]
    if mode < 0.7:
        p = [g.uniform(0, box[i]) for i in range(3)]
        ax = g.randrange(3)
        p[ax] = g.choice([g.uniform(0, 0.08), box[ax] - g.uniform(1e-6, 0.08)])
        return [_r6(x) for x in p]
    return [_r6(g.uniform(0, box[i] * 0.999999)) for i in range(3)]


WORLD_A_PROFILE = {"box_modes": ["dense", "cubic", "noncubic"], "faults": ["step", "start", "overlap"],
                   "shapes": ["linear", "linear", "star", "comb", "ring"], "max_molecules": 12, "maxres": 12,
                   "vsites": False, "max_atoms": 2}


def gen_job(verif_seed, tier, index):
    if index % 10 == 9:
        # shadow model inside real gen_coords runs: every position the engine receives / drops / consolidates and a
        # sample of its overlap verdicts are compared with the reference model (rewinds, retries, >10-residue chains)
        from gen import jobgen
        job, _st = jobgen.base_job(PROP + "A", verif_seed, tier, index, WORLD_A_PROFILE)
        job["world"] = "A"
        return job
    seed = run_seed(PROP, verif_seed, index)
    g = Streams(seed).gen
    ntypes = g.randint(1, 3)
    sizes = {f"T{i}": _r6(g.uniform(0.25, 0.62)) for i in range(ntypes)}
    cut = 2 * max(sizes.values())
    threshold = g.random() < (0.10 if tier == "quick" else 0.15)
    lo = 2.05 * cut
    if threshold:
        box = [_r6(g.uniform(8, 12)) for _ in range(3)]
    elif g.random() < 0.5:
        L = _r6(g.uniform(lo, lo + 3))
        box = [L, L, L]
    else:
        box = [_r6(g.uniform(lo, lo + 4)) for _ in range(3)]
    if not threshold and g.random() < 0.12:
        # a thin (slab) box: one edge between 1.05 and 1.9 cut-offs - a neighbour can be within the cut-off both
        # directly and through the boundary; engine and model both take the nearest image
        ax = g.randrange(3)
        box = [_r6(g.uniform(lo, lo + 4)) for _ in range(3)]
        box[ax] = _r6(g.uniform(1.05, 1.9) * cut)
    tnames = sorted(sizes)
    molecules = []
    nmol = g.randint(1, 3)
    positioned = []
    for m in range(nmol):
        nn = g.randint(2, 12)
        stride = g.choice([1, 1, 2, 3])
        off = g.choice([0, 0, 1, 5])
        mol = []
        pinit = g.choice([0.0, 0.3, 0.6, 1.0])
        for n in range(nn):
            key = off + stride * n
            xyz = None
            if g.random() < pinit:
                xyz = _rand_point(g, box, positioned, cut)
                positioned.append(xyz)
            mol.append([key, g.choice(tnames), xyz])
        molecules.append(mol)
    used = {t for mol in molecules for _, t, _ in mol}
    if threshold:
        nb = g.randint(4990, 5010)
        bulk = []
        for n in range(nb):
            xyz = [_r6(g.uniform(0, box[i] * 0.999999)) for i in range(3)]
            bulk.append([n, g.choice(tnames), xyz])
        molecules.append(bulk)
    # shadow state for op generation
    state = {}
    for m, mol in enumerate(molecules):
        for key, typ, xyz in mol:
            state[(m, key)] = xyz
    small_mols = list(range(nmol))
    weights = {"add": g.choice([1, 3, 6]), "remove": g.choice([0.5, 2, 4]), "concat": g.choice([0, 0.5, 1.5]),
               "force": g.choice([1, 3]), "mindist": g.choice([0, 0.5, 1]), "writeback": g.choice([0, 0.3]),
               "inter": g.choice([0, 0.3]), "mindist_node": g.choice([0, 0.5])}
    kinds = sorted(weights)
    nops = g.randint(5, 80 if not threshold else 40)
    ops = []
    recent = []
    for _ in range(nops):
        kind = g.choices(kinds, [weights[k] for k in kinds])[0]
        pos_now = [v for v in state.values() if v is not None]
        small_pos = [state[k] for k in state if k[0] in small_mols and state[k] is not None]
        if kind == "add":
            free = [k for k in state if state[k] is None and k[0] in small_mols]
            if not free:
                kind = "remove"
            else:
                k = g.choice(free)
                xyz = _rand_point(g, box, small_pos or pos_now[-20:], cut)
                start = g.random() < (0.7 if threshold else 0.35)
                ops.append(["add", k[0], k[1], start, xyz])
                state[k] = xyz
                recent.append(xyz)
                continue
        if kind == "remove":
            m = g.choice(small_mols if (not threshold or g.random() < 0.9) else [nmol])
            keys = [k[1] for k in state if k[0] == m]
            mode = g.random()
            if mode < 0.2:
                nodes = list(keys)
            elif mode < 0.35 and threshold:
                # empty the most recently opened tree: remove the latest start-adds
                nodes = [o[2] for o in ops if o[0] == "add" and o[1] == m][-6:] or g.sample(keys, 1)
            else:
                nodes = g.sample(keys, min(len(keys), g.randint(1, 4)))
                if g.random() < 0.2:
                    nodes = nodes + [nodes[0]]
            ops.append(["remove", m, nodes])
            for n in nodes:
                if state[(m, n)] is not None:
                    recent.append(state[(m, n)])
                state[(m, n)] = None
            continue
        if kind == "concat":
            ops.append(["concat"])
        elif kind == "force":
            k = g.choice([k for k in state if k[0] in small_mols])
            keys = [kk[1] for kk in state if kk[0] == k[0]]
            excl = g.sample(keys, min(len(keys), g.randint(0, 3)))
            if g.random() < 0.6 and k[1] not in excl:
                excl.append(k[1])
            src = recent[-6:] if (recent and g.random() < 0.7) else pos_now[-30:]
            p = _rand_point(g, box, src, cut)
            if small_pos and g.random() < 0.06:
                # the query point coincides bit for bit with a positioned residue (distance exactly 0)
                k2 = g.choice([kk for kk in state if kk[0] in small_mols and state[kk] is not None])
                p = list(state[k2])
                if k2[0] == k[0]:
                    excl = [e for e in excl if e != k2[1]]
                    if k2 == k:
                        excl = [e for e in excl if e != k[1]]
            ops.append(["force", p, k[0], k[1], excl])
        elif kind == "mindist":
            a = [_r6(g.uniform(-0.5 * box[i], 1.5 * box[i])) for i in range(3)]
            b = [_r6(g.uniform(0, box[i])) for i in range(3)]
            shift = [g.randint(-2, 2) for _ in range(3)]
            ops.append(["mindist", a, b, shift])
        elif kind == "writeback":
            ops.append(["writeback"])
        elif kind == "inter":
            ka, kb = g.choice(list(state)), g.choice(list(state))
            ops.append(["inter", list(ka), list(kb)])
        elif kind == "mindist_node":
            ka, kb = g.choice(list(state)), g.choice(list(state))
            ops.append(["mindist_node", list(ka), list(kb)])
    return {"index": index, "run_seed": seed, "cfg": {"box": box, "sizes": sizes, "molecules": molecules},
            "ops": ops, "threshold": threshold}


def run_job(job):
    if job.get("world") == "A":
        from worlds import placement_world
        res = placement_world.run(job)
        res["nontrivial"] = bool(res["probes"].get("overlap_verdict_shadowed")) and any(c in res["signature"] for c in "FENRX")
        res["ntkey"] = res["digest"]
        res["probes"]["world_A_shadow_runs"] = 1
        res["sample"] = {"world": "A", "molecules": job["spec"]["molecules"], "opts": job["opts"]}
        return res
    res = engine_world.run_history(job["cfg"], job["ops"], prop=PROP)
    ops = job["ops"]
    res["sample"] = {"box": job["cfg"]["box"], "sizes": job["cfg"]["sizes"],
                     "molecule_sizes": [len(m) for m in job["cfg"]["molecules"]],
                     "ops": ops[:12], "n_ops": len(ops)}
    if job.get("threshold"):
        res["probes"]["threshold_regime_runs"] = 1
    return res


def reductions(job):
    if job.get("world") == "A":
        from gen import jobgen
        yield from jobgen.reductions(job)
        return
    ops = job["ops"]
    n = len(ops)
    size = max(1, n // 2)
    while size >= 1:
        for start in range(0, n, size):
            cand = dict(job)
            cand["ops"] = ops[:start] + ops[start + size:]
            if len(cand["ops"]) < n:
                yield cand
        if size == 1:
            break
        size //= 2
    # un-position initial residues of small molecules, drop trailing nodes
    mols = job["cfg"]["molecules"]
    for m, mol in enumerate(mols):
        if len(mol) > 100:
            # shrink the bulk molecule from the end (keeps threshold behaviour as long as needed)
            for keep in (len(mol) // 2, len(mol) - 100, len(mol) - 10, len(mol) - 1):
                if 0 < keep < len(mol):
                    cand = dict(job)
                    cfg = dict(job["cfg"])
                    cfg["molecules"] = [list(x) for x in mols]
                    cfg["molecules"][m] = mol[:keep]
                    cand["cfg"] = cfg
                    yield cand
            continue
        for n_i, (key, typ, xyz) in enumerate(mol):
            if xyz is not None:
                cand = dict(job)
                cfg = dict(job["cfg"])
                cfg["molecules"] = [list(x) for x in mols]
                cfg["molecules"][m] = [list(x) for x in mol]
                cfg["molecules"][m][n_i] = [key, typ, None]
                cand["cfg"] = cfg
                yield cand

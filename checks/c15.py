"""C15 - one centred template and size per distinct residue; user values win."""
from gen import jobgen
from checks import _world_a as wa

PROP = "C15"
LEVEL = "exploration"
RULE = ("seeded gen_coords runs over topologies in which equal residue names have different content in different "
        "molecule types, atom names are permuted between otherwise identical residues, rings/branches/virtual sites "
        "(virtual_sitesn COG, virtual_sites2, virtual_sites3) occur, and build files give [template]/[volumes] for some "
        "residue names; the optimiser verdict is forced to 'failed' 0..14 times in a row from the decision tape (retry loop "
        "and fall-through); oracle on the captured topology: grouping by labelled-graph isomorphism, key sets, zero centre, "
        "virtual-site constructions, tolerances unless a failed-to-optimise warning was logged, user templates/sizes "
        "unchanged and not optimised, sizes > 0, every generated size equal to the size recomputed from the residue's own "
        "template (names with build-file sizes/templates and templates with an atom on the centre not judged); non-trivial = >= 2 templates or an optimiser fault fired; "
        "distinct = distinct event-log digests")
ASSUMPTIONS = wa.ASSUMPTIONS + ["atom names are unique inside a generated residue, so labelled-graph isomorphism is decided by "
                                "comparing (names, name-labelled edges); virtual-site kinds generated: virtual_sitesn funct 1, "
                                "virtual_sites2, virtual_sites3 funct 1"]
REAL_VS_STUB = wa.REAL_VS_STUB
PROBES = wa.PROBES + ["generated_size_recomputed", "earlier_call_same_topology_paths", "improper_dihedral", "strained_ring", "skip_filter", "unoptimisable_residue", "optimisation_fall_through", "user_template", "user_volume", "resname_clash", "unsorted_section_lines", "angles_vs_improper_conflict", "proper_after_improper_same_atoms", "volume_for_clashing_name", "local_strain_in_long_residue", "two_build_files"]
PROFILE = {"impossible_p": 0.4, "vs_p": 0.4, "improper_p": 0.6, "strained_p": 0.35, "conflict_p": 0.12, "local_strain_p": 0.08,
           "n_restypes": (2, 3), "n_moltypes": (2, 3), "max_atoms": 4, "faults": ["opt", "opt", "step"],
           "max_molecules": 5, "maxres": 5, "box_modes": ["cubic"], "n_entries": (2, 3)}


def n_runs(tier):
    return 300 if tier == "quick" else 20000


def gen_job(verif_seed, tier, index):
    job, st = jobgen.base_job(PROP, verif_seed, tier, index, PROFILE)
    g = st.gen
    t = st.tape
    if g.random() < 0.1:
        jobgen.make_restart_job(job, g, alias=False)   # diblock (two residue types) whose numbers start again with the second block
    elif g.random() < 0.35:
        jobgen.add_resname_clash(job, g)
    if g.random() < 0.35:
        jobgen.add_user_templates(job, g, allow_vs=True)
    if g.random() < 0.15 and not job.get("resname_clash"):
        job["opts"]["skip_filter"] = True
    if (job.get("bld_templates") or job.get("bld_volumes")) and g.random() < 0.3:
        job["two_build_files"] = True          # -b sizes.bld opts.bld (templates in the last file)
    if g.random() < 0.5:
        # streaks of failed verdicts: retry loop (<= 11 in a row) and fall-through (>= 12)
        lane = []
        for _ in range(t.randint(1, 4)):
            lane += [1] * t.choice([1, 2, 5, 11, 12, 14]) + [0] * t.randint(1, 2)
        job["tape"]["opt"] = lane
    if g.random() < 0.3:
        for mt in job["spec"]["moltypes"]:
            mt["section_shuffle"] = g.getrandbits(20)
        job["section_shuffle"] = True
    if not job.get("user_templates") and g.random() < 0.12:
        jobgen.add_pre_variant(job, g, "other_geometry")       # same labelled graphs, other parameters, earlier call
    return job


def _tag(job, res):
    p = res["probes"]
    if job.get("user_templates"):
        p["user_template"] = 1
    if job.get("user_volumes"):
        p["user_volume"] = 1
    if job.get("resname_clash"):
        p["resname_clash"] = 1
    if job.get("section_shuffle"):
        p["unsorted_section_lines"] = 1
    if any(rt.get("impropers") for rt in job["spec"]["restypes"].values()):
        p["improper_dihedral"] = 1
    if any(rt.get("strained") for rt in job["spec"]["restypes"].values()):
        p["strained_ring"] = 1
    if any(rt.get("conflict") for rt in job["spec"]["restypes"].values()):
        p["angles_vs_improper_conflict"] = 1
    if any(rt.get("propers") for rt in job["spec"]["restypes"].values()):
        p["proper_after_improper_same_atoms"] = 1
    if job.get("volume_for_clashing_name"):
        p["volume_for_clashing_name"] = 1
    if any(rt.get("local_strain") for rt in job["spec"]["restypes"].values()):
        p["local_strain_in_long_residue"] = 1
    if job.get("two_build_files"):
        p["two_build_files"] = 1
    if job["opts"].get("skip_filter"):
        p["skip_filter"] = 1
    if any(rt.get("impossible") for rt in job["spec"]["restypes"].values()):
        p["unoptimisable_residue"] = 1
    return bool(p.get("two_or_more_templates")) or bool(res["faults"].get("optimiser_forced_fail"))


def run_job(job):
    return wa.run_and_tag(job, _tag)


reductions = jobgen.reductions

"""C07 - build-file restraints hold for every residue they select."""
from gen import jobgen, bldgen, topgen
from checks import _world_a as wa

PROP = "C07"
LEVEL = "exploration"
RULE = ("seeded gen_coords runs with generated build files: in/out sphere, cylinder, rectangle on residue-name/resid "
        "ranges and molecule index ranges; rw_restriction (axis and oblique normals, angles 30..90 and -120/-150, small boxes so "
        "that restricted steps wrap around the boundary); distance_restraints on linear chains; -cycles/-cycle_tol on rings of "
        "3-10; persistence_length batches (np.random.seed(None) answered from the run's sys stream) in boxes >= 3 contour "
        "lengths; decision tapes with forced step failures/rejections so that restraint bookkeeping has to survive rewinds and "
        "retries; oracle from the final residue positions and the generator's structured record of the build file, with "
        "independent predicates; non-trivial = some restraint selects a generated residue; distinct = distinct event-log digests")
ASSUMPTIONS = wa.ASSUMPTIONS + ["geometric 'in' regions are generated large enough and 'out' regions small enough to be satisfiable"]
REAL_VS_STUB = wa.REAL_VS_STUB
PROBES = wa.PROBES + ["earlier_call_same_build_file_path", "ring_with_side_chain", "persistence_with_distance_restraint", "resid_restart_inside_molecule", "distance_restraint_beyond_half_box", "restraint_selects_generated_residue", "direction_restricted_step", "direction_restricted_step_wrapped",
                      "distance_restraint_checked", "persistence_sampled", "cycle_checked"]
PROFILE = {"shapes": ["linear", "linear", "linear", "ring", "ring", "comb", "single"], "maxres": 10, "n_moltypes": (1, 2),
           "n_entries": (1, 3), "max_molecules": 6, "max_count": 3, "box_modes": ["cubic", "noncubic"],
           "faults": ["step", "start", "overlap"], "maxiter": [1, 2, 800], "vsites": False, "p_sf": 0.2}


def n_runs(tier):
    return 300 if tier == "quick" else 30000


def gen_job(verif_seed, tier, index):
    job, st = jobgen.base_job(PROP, verif_seed, tier, index, PROFILE)
    g = st.gen
    spec = job["spec"]
    mode = g.choice(["geom", "geom", "rw", "rw", "dist", "dist", "dist", "pers", "cycle", "cycle", "mix"])
    if mode == "cycle" and g.random() < 0.7:
        # one or two ring types built from differently sized residues, all declared cyclic
        names = sorted(spec["restypes"])
        used = []
        for k, mt in enumerate(spec["moltypes"][:2]):
            n = g.randint(3, 9)
            rn = g.choice([x for x in names if x not in used] or names)
            used.append(rn)
            mt.update({"shape": "ring", "residues": [rn] * n, "edges": [[i, i + 1] for i in range(n - 1)] + [[0, n - 1]]})
            if n >= 4 and g.random() < 0.2:
                # 'lollipop': a stem of 2-3 residues listed FIRST (the growth root is off the ring), then the ring
                st_n = g.randint(2, 3)
                mt["residues"] = [rn] * (st_n + n)
                mt["edges"] = [[i, i + 1] for i in range(st_n + n - 1)] + [[st_n, st_n + n - 1]]
                job["ring_with_side_chain"] = True
            elif n >= 4 and g.random() < 0.35:
                # a ring that carries one or two pendant residues (side chain): the residue numbered last is not the
                # one that closes the ring
                for t in range(g.randint(1, 2)):
                    mt["residues"].append(rn)
                    mt["edges"].append([g.randrange(1, n - 1) if t == 0 else len(mt["residues"]) - 2, len(mt["residues"]) - 1])
                job["ring_with_side_chain"] = True
            if not any(nm == mt["name"] for nm, _ in spec["molecules"]):
                spec["molecules"].append([mt["name"], g.randint(1, 3)])
        job["opts"].pop("density", None)
        job["opts"].update(topgen.choose_box(g, spec, {"box_modes": ["cubic", "noncubic"]}))
    if mode in ("dist", "pers"):
        # distance-type restraints need room: the first molecule type becomes a linear chain of 8-14 residues
        mt = spec["moltypes"][0]
        n = g.randint(8, 14) if (mode == "dist" or g.random() < 0.5) else g.randint(6, 9)
        names = sorted(spec["restypes"])
        mt["shape"] = "linear"
        mt["residues"] = [g.choice(names) for _ in range(n)] if g.random() < 0.5 else [g.choice(names)] * n
        mt["edges"] = [[k, k + 1] for k in range(n - 1)]
        if not any(nm == mt["name"] for nm, _ in spec["molecules"]):
            spec["molecules"].insert(0, [mt["name"], g.randint(1, 2)])
        if mode == "pers" and n <= 9:
            # several copies of the short chain: every molecule samples its own end-to-end distance
            spec["molecules"] = [[mt["name"], g.randint(4, 8)]]
        if mode == "dist" and len(spec["moltypes"]) >= 2 and g.random() < 0.6:
            # a second restrained chain type built from other (differently sized) residues
            mt2 = spec["moltypes"][1]
            n2 = g.randint(6, 10)
            other = [nm for nm in names if nm not in mt["residues"]] or names
            mt2["shape"] = "linear"
            mt2["residues"] = [g.choice(other)] * n2
            mt2["edges"] = [[k, k + 1] for k in range(n2 - 1)]
            if not any(nm == mt2["name"] for nm, _ in spec["molecules"]):
                spec["molecules"].append([mt2["name"], g.randint(1, 3)])
        job["opts"].update(topgen.choose_box(g, spec, {"box_modes": ["cubic", "noncubic"]}))
        if mode == "dist" and not job["tape"].get("step"):
            # rewinds while distance restraints are in force (reference residues get re-placed)
            from simkit.core import draw_lane
            job["tape"]["step"] = draw_lane(st.tape, 60, g.choice([0.05, 0.15, 0.3]), g.random() < 0.5)
    sizes = max(topgen.est_size(rt) for rt in spec["restypes"].values())
    maxres = max(len(m["residues"]) for m in spec["moltypes"])
    box = job["opts"]["box"]
    if mode == "pers":
        edge = round(max(max(box), 3.0 * maxres * sizes), 3)
        box = [edge, edge, edge]
    elif mode in ("rw",) and g.random() < 0.5:
        # small boxes make direction-restricted steps wrap around the boundary
        edge = round(max(2.3 * sizes * job["opts"].get("step_fudge", 1.0) + 0.2, 0.6 * min(box)), 3)
        box = [edge, edge, edge]
    job["opts"]["box"] = box
    kinds = {"geom": ["geom"], "rw": ["rw"], "dist": ["dist"], "pers": ["pers"], "cycle": [],
             "mix": ["geom", "rw", "dist"]}[mode]
    job["c07_mode"] = mode
    if kinds:
        job["build_spec"] = bldgen.gen_build_spec(g, spec, box, kinds, est_size=sizes)
    if mode == "pers" and g.random() < 0.4:
        # the molecule with a persistence length also carries an explicit (loose, interior) distance restraint
        for blk in job.get("build_spec") or []:
            mt = next(m for m in spec["moltypes"] if m["name"] == blk["mol"])
            n = len(mt["residues"])
            if any(it["kind"] == "pers" for it in blk["items"]) and n >= 6:
                a = 1
                b = g.randint(a + 3, n - 2)
                blk["items"].append({"kind": "dist", "a": a, "b": b, "d": round(0.5 * (b - a) * sizes, 3), "tol": 0.3,
                                     "reversed": False})
                job["persistence_with_distance_restraint"] = True
    if mode in ("geom", "rw", "mix") and g.random() < 0.15:
        # residue numbers that start again inside a molecule type; the restraints select by name and number
        if jobgen.add_resid_restart(job, g) or (len(spec["restypes"]) >= 2 and jobgen.make_restart_job(job, g) is not None):
            job["build_spec"] = bldgen.gen_build_spec(g, spec, box, [k for k in kinds if k != "dist"] or ["geom"], est_size=sizes)
            # at least one restraint selects residues of the FIRST block (numbers that occur again in the second one)
            for blk in job["build_spec"]:
                mt = next(m for m in spec["moltypes"] if m["name"] == blk["mol"])
                k = mt.get("resid_restart")
                sel = [it for it in blk["items"] if it["kind"] in ("sphere", "cylinder", "rectangle", "rw")]
                if k is not None and sel:
                    sel[0].update({"resname": mt["residues"][0], "start": 1, "stop": k + 1})
    if mode == "dist" and g.random() < 0.25:
        # one long chain in a box whose edge is less than twice the restrained distance: the restrained pair is
        # nearer through a box face than inside the cell for many conformations
        rn = sorted(spec["restypes"])[0]
        n = g.randint(12, 18)
        mt = spec["moltypes"][0]
        for k in ("list_order", "residue_override", "restype_override", "resid_restart"):
            mt.pop(k, None)
        mt.update({"shape": "linear", "residues": [rn] * n, "edges": [[k, k + 1] for k in range(n - 1)]})
        spec["molecules"] = [[mt["name"], g.randint(1, 2)]]
        s1 = topgen.est_size(spec["restypes"][rn])
        d = round(0.5 * (n - 1) * s1, 3)
        edge = round(d / g.uniform(0.52, 0.6), 3)
        job["opts"].pop("density", None)
        job["opts"]["box"] = [edge, edge, edge]
        job["build_spec"] = [{"mol": mt["name"], "from": 0, "to": spec["molecules"][0][1],
                              "items": [{"kind": "dist", "a": 0, "b": n - 1, "d": d, "tol": round(g.uniform(0.2, 0.3), 3),
                                         "reversed": g.random() < 0.3}]}]
        job["restraint_beyond_half_box"] = True
    if mode == "cycle" and g.random() < 0.5:
        for mt in spec["moltypes"]:
            n = len(mt["residues"])
            if mt["shape"] == "ring" and n >= 6 and any(nm == mt["name"] for nm, _ in spec["molecules"]):
                idxs = [i for i, m in enumerate(bldgen.instances(spec)) if m["name"] == mt["name"]]
                run = [idxs[0]]
                while run[-1] + 1 in idxs:
                    run.append(run[-1] + 1)
                b = g.randint(3, min(5, n - 2))
                job["build_spec"] = (job.get("build_spec") or []) + [{
                    "mol": mt["name"], "from": run[0], "to": run[-1] + 1,
                    "items": [{"kind": "dist", "a": 1, "b": b, "d": round(0.45 * (b - 1) * sizes, 3), "tol": 0.25}]}]
                job["ring_with_distance_restraint"] = True
                break
    if mode == "geom" and job.get("build_spec") and g.random() < 0.25:
        # an earlier gen_coords call in the process read other restraints from the same build-file path
        alt = bldgen.gen_build_spec(g, spec, box, ["geom"], est_size=sizes)
        for blk in alt:
            for it in blk["items"]:
                if it.get("inout") == "out":
                    it["inout"], it["params"] = "in", [round(0.45 * min(box), 3)] * len(it["params"])
                it["center"] = [round(box[d] * g.uniform(0.45, 0.55), 3) for d in range(3)]
        job["pre_build_text"] = bldgen.render(alt)
    if mode in ("geom", "rw") and g.random() < 0.3:
        jobgen.add_list_order(job, g)
    if g.random() < 0.25 and mode in ("geom", "rw", "cycle") and not job.get("ring_with_distance_restraint"):
        # -start on a molecule that also has a persistence length (which fixes the first residue itself) or a
        # distance restraint spanning the start residue is a contradictory / refused input: not generated
        jobgen.add_start(job, g)
    rings = sorted({m["name"] for m in spec["moltypes"] if m["shape"] == "ring"
                    and any(n == m["name"] for n, _ in spec["molecules"])})
    if rings and (mode in ("cycle", "mix") or g.random() < 0.3):
        job["opts"]["cycles"] = rings if g.random() < 0.7 else [g.choice(rings)]
        if job.get("ring_with_distance_restraint"):
            # a distance restraint on a ring that is NOT declared cyclic is grown breadth-first, i.e. as a branched
            # molecule, on which polyply refuses distance restraints (with a malformed message: KeyError ' '): every
            # ring is declared then
            job["opts"]["cycles"] = rings
        job["opts"]["cycle_tol"] = g.choice([0.0, 0.1, 0.3])
    return job


def _nontrivial(job, res):
    p = res.get("probes", {})
    if job.get("ring_with_side_chain") and p.get("cycle_checked"):
        res["probes"]["ring_with_side_chain"] = 1
    if job.get("persistence_with_distance_restraint") and p.get("persistence_sampled"):
        res["probes"]["persistence_with_distance_restraint"] = 1
    if job.get("resid_restart"):
        res["probes"]["resid_restart_inside_molecule"] = 1
    if job.get("restraint_beyond_half_box") and p.get("distance_restraint_checked"):
        res["probes"]["distance_restraint_beyond_half_box"] = 1
    return any(p.get(k) for k in ("restraint_selects_generated_residue", "direction_restricted_step",
                                  "distance_restraint_checked", "persistence_sampled", "cycle_checked"))


def run_job(job):
    return wa.run_and_tag(job, _nontrivial)


def reductions(job):
    # drop build-file items first, then the generic reductions
    bs = job.get("build_spec") or []
    for bi, b in enumerate(bs):
        if len(bs) > 1:
            cand = dict(job)
            cand["build_spec"] = bs[:bi] + bs[bi + 1:]
            yield cand
        for ii in range(len(b["items"])):
            if len(b["items"]) > 1:
                cand = dict(job)
                nb = dict(b)
                nb["items"] = b["items"][:ii] + b["items"][ii + 1:]
                cand["build_spec"] = bs[:bi] + [nb] + bs[bi + 1:]
                yield cand
    for cand in jobgen.reductions(job):
        if job.get("build_spec") and cand["spec"] is not job["spec"]:
            continue      # restraint ranges refer to the molecule list: keep the workload fixed
        yield cand

"""C06 - backmapping places rigid, centred, same-handed copies of the residue template."""
from gen import jobgen
from checks import _world_a as wa

PROP = "C06"
LEVEL = "exploration"
RULE = ("seeded gen_coords runs with residue types of 1-4 atoms (+ virtual site; chains, trees, rings: planar and chiral), "
        "0..n bonded neighbours built before/after, backmapping factors {0.2,0.4,1.0}, residues supplied as centres (-mc) "
        "mixed in; the orientation optimiser's result is replaced from the decision tape by angle triples from a fixed set "
        "(0, +-pi/2, pi, 1e3-scale, 1e-9-scale, random) in ~70% of the calls; per backmapped residue: centre of geometry = "
        "residue position (1e-9), Kabsch fit of factor*template onto the atoms restricted to det=+1 leaves <= 1e-6 nm, "
        "copies of one type congruent, file coordinates agree to 3 decimals; non-trivial = a backmapped residue with >= 2 "
        "atoms; distinct = distinct event-log digests")
ASSUMPTIONS = wa.ASSUMPTIONS
REAL_VS_STUB = wa.REAL_VS_STUB
PROBES = wa.PROBES + ["user_template", "alias_templates", "list_order", "earlier_call_same_topology_paths", "centres_supplied", "atoms_and_centres_supplied_together", "integer_position_arrays", "user_template_and_shorter_variant_of_the_name"]
PROFILE = {"max_atoms": 4, "p_bf": 0.7, "faults": ["orient", "orient", "step", "opt"], "n_restypes": (1, 3),
           "box_modes": ["cubic", "noncubic", "density"]}


def n_runs(tier):
    return 400 if tier == "quick" else 40000


def gen_job(verif_seed, tier, index):
    job, st = jobgen.base_job(PROP, verif_seed, tier, index, PROFILE)
    g = st.gen
    if g.random() < 0.08:
        job["opts"]["bfudge"] = g.choice([0.0, 0.0, 1.7])          # boundary value 0 (atoms on the centre) and > 1
    if "orient" not in job["tape"] and g.random() < 0.7:
        from simkit.core import draw_lane
        from gen import topgen
        job["tape"]["orient"] = draw_lane(st.tape, 3 * topgen.n_residues(job["spec"]) + 5, 0.7, False, maxval=7)
    r = g.random()
    if r < 0.25:
        jobgen.add_coordinates(job, g, {"coord_modes": ["meta_full", "meta_prefix", "prefix"]})
    elif r < 0.45:
        # templates from a build file, also for two residue names that share one labelled graph
        if g.random() < 0.5:
            pair = jobgen.add_alias_restype(job, g)
            if pair:
                job["alias_pair"] = list(pair)
        jobgen.add_user_templates(job, g)
    elif r < 0.55:
        jobgen.add_list_order(job, g)
    elif r < 0.60:
        jobgen.add_resid_restart(job, g)       # residue numbers that start again inside a molecule type
    elif r < 0.66:
        jobgen.add_template_with_subset_variant(job, g)     # user template for a name one residue of which is shorter
    elif r < 0.71:
        jobgen.make_restart_job(job, g)        # diblock numbered 1..i, 1..j; half of the time with equal atom names
    elif r < 0.76:
        jobgen.add_both_inputs(job, g)         # -c and -mc together
    elif r < 0.83 and "box" in job["opts"]:
        # residue centres on an integer lattice, handed to the backmapping as integer arrays
        if jobgen.add_coordinates(job, g, {"lattice_centres": True, "coord_modes": ["meta_full", "meta_full", "meta_prefix"]}):
            job["int_positions"] = True
    if g.random() < 0.08:
        for mt in job["spec"]["moltypes"]:
            mt["double_links"] = True           # two bonds between every pair of bonded residues (ladder polymers)
        job["double_links"] = True
    if job.get("coord_text") is None and not job.get("bld_volumes") and g.random() < 0.12:
        jobgen.add_pre_variant(job, g, g.choice(["other_geometry", "other_graph"]))
    return job


def _nt(j, r):
    if j.get("user_templates"):
        r["probes"]["user_template"] = 1
    if j.get("alias_pair"):
        r["probes"]["alias_templates"] = 1
    if j.get("list_order"):
        r["probes"]["list_order"] = 1
    if r["faults"].get("position_as_integer_array"):
        r["probes"]["integer_position_arrays"] = 1
    if j.get("template_with_subset_variant"):
        r["probes"]["user_template_and_shorter_variant_of_the_name"] = 1
    if j.get("meta_text") is not None:
        r["probes"]["atoms_and_centres_supplied_together"] = 1
    return bool(r["probes"].get("backmapped_multi_atom_residue"))


def run_job(job):
    return wa.run_and_tag(job, _nt)


reductions = jobgen.reductions

"""C04 - supplied coordinates are preserved; only missing parts are built."""
from gen import jobgen
from checks import _world_a as wa

PROP = "C04"
LEVEL = "exploration"
RULE = ("two-stage runs: stage 1 builds the generated system fault-free, stage 2 re-runs it with (a) the full structure, "
        "(b) a prefix cut at a residue boundary (whole molecules and partial chains), (c) residue centres only (-mc, full or "
        "prefix), (d) -res naming 1-2 residue types whose atoms are absent from the input, (e) -ign naming 1-2 molecule types "
        "placed first / in the middle / last, under decision tapes with forced step failures, rejected starts and candidates "
        "(first attempts of partially supplied molecules fail in most faulted runs); -box/-dens kept, dropped or contradicting "
        "the input box; oracle: supplied atoms keep exactly their numbers in file and memory, centres kept and atoms centred on "
        "them, the set of residues that ever received a generated position == named for rebuilding + missing (non-ignored), "
        "no event names an ignored molecule, nothing supplied is ever removed; non-trivial = supplied and generated residues "
        "both present; distinct = distinct event-log digests")
ASSUMPTIONS = wa.ASSUMPTIONS
REAL_VS_STUB = wa.REAL_VS_STUB
PROBES = wa.PROBES + ["atoms_supplied", "centres_supplied", "supplied_and_generated_in_one_system",
                      "ignored_molecule_present", "ignored_molecule_not_last", "earlier_call_same_input_path", "pdb_input", "synthetic_centres", "ligand_placed_with_host", "resid_restart_inside_molecule", "split_with_supplied_atoms", "start_on_supplied_residue", "pdb_input_without_box_record", "relative_input_path_with_decoy_next_to_topology", "ligand_on_cyclic_host", "atom_number_column_restarts", "moltype_named_like_residue", "resname_with_plus_sign"]
PROFILE = {"p_wrap_atoms": 0.3, "p_atomno_restart": 0.15, "p_rel_inputs": 0.12, "p_synth_centres": 0.25, "sol_p": 0.25, "p_pdb": 0.2, "p_pre_call": 0.3, "n_moltypes": (1, 3), "n_entries": (2, 4), "max_molecules": 8, "max_count": 3, "maxres": 7,
           "box_modes": ["cubic", "cubic", "noncubic", "density"], "faults": ["step", "start", "overlap"],
           "maxiter": [0, 1, 2, 800], "dilute_hint": True}


def n_runs(tier):
    return 300 if tier == "quick" else 30000


def gen_job(verif_seed, tier, index):
    job, st = jobgen.base_job(PROP, verif_seed, tier, index, PROFILE)
    if st.gen.random() < 0.08 and jobgen.prepare_ligands(job, st.gen):
        # -lig: the host molecules are supplied (mostly as residue centres), the ligand molecules are missing
        opts0 = dict(job["opts"])
        ok = jobgen.add_coordinates(job, st.gen, PROFILE, cut_at_instance=job["lig_plan"]["first"])
        ok = ok and jobgen.finish_ligands(job, st.gen)
        if not ok:
            # no usable host: a plain build of the system, with the box options it had
            for k in ("coord_text", "coord_kind", "coord_mode", "supplied_atoms", "supplied_centres", "expected_built",
                      "rel_inputs", "rel_decoy_text", "pdb_no_box", "coord_ext", "pre_coord_text"):
                job.pop(k, None)
            job["opts"] = opts0
        job["two_stage"] = ok
        return job
    if st.gen.random() < 0.06:
        # diblock whose numbering starts again with the second block; the first block (of the first molecule) is
        # supplied, the rest is built: residues of equal NUMBER on both sides of the cut
        first_b = jobgen.make_restart_job(job, st.gen)
        if first_b is not None:
            ok = jobgen.add_coordinates(job, st.gen, PROFILE, cut_at_residue=first_b)
            job["two_stage"] = ok
            return job
    if st.gen.random() < 0.15:
        jobgen.add_resid_restart(job, st.gen)
    if st.gen.random() < 0.07:
        # centres for all residues but those of the type the first molecule type begins with (-res), and -start on one
        # of the supplied residues of such a molecule
        mt0 = next(m for m in job["spec"]["moltypes"] if m["name"] == job["spec"]["molecules"][0][0])
        ok = jobgen.add_coordinates(job, st.gen, dict(PROFILE, coord_modes=["meta_res"]), force_res=[mt0["residues"][0]])
        if ok:
            jobgen.add_start_on_supplied(job, st.gen)
        job["two_stage"] = ok
        return job
    if st.gen.random() < 0.05:
        # a molecule type that carries the NAME of one of its residue types (PEO built from PEO units and end groups),
        # and -res naming it: only the residues of that name are to be rebuilt
        spec = job["spec"]
        cands = [m for m in spec["moltypes"] if len(set(m["residues"])) >= 2
                 and any(n == m["name"] for n, _ in spec["molecules"])]
        if cands:
            mt = cands[0]
            rn = mt["residues"][len(mt["residues"]) // 2]
            old = mt["name"]
            if not any(m["name"] == rn for m in spec["moltypes"]):
                mt["name"] = rn
                spec["molecules"] = [[rn if n == old else n, c] for n, c in spec["molecules"]]
                ok = jobgen.add_coordinates(job, st.gen, dict(PROFILE, coord_modes=["res", "meta_res"], p_synth_centres=0.0),
                                            force_res=[rn])
                job["two_stage"] = ok
                job["moltype_named_like_residue"] = True
                return job
    if st.gen.random() < 0.05:
        # a residue name with a character that means something in patterns (ion names like NA+), named with -res
        spec = job["spec"]
        used = sorted({r for m in spec["moltypes"] for r in m["residues"] if any(n == m["name"] for n, _ in spec["molecules"])})
        rn = st.gen.choice(used)
        new = rn[:2] + "+"
        if new not in spec["restypes"] and not any(m.get("restype_override") or m.get("residue_override") for m in spec["moltypes"]):
            spec["restypes"][new] = spec["restypes"].pop(rn)
            spec["restypes"][new]["name"] = new
            for m in spec["moltypes"]:
                m["residues"] = [new if r == rn else r for r in m["residues"]]
            ok = jobgen.add_coordinates(job, st.gen, dict(PROFILE, coord_modes=["res", "meta_res", "res_prefix"], p_pdb=0.0,
                                                          p_synth_centres=0.0), force_res=[new])
            job["two_stage"] = ok
            job["resname_with_plus"] = True
            return job
    if st.gen.random() < 0.08:
        # -split together with an atom-level structure (whole residues supplied, the rest built)
        ok = jobgen.add_coordinates(job, st.gen, dict(PROFILE, coord_modes=["prefix", "prefix", "full"], p_synth_centres=0.0))
        if ok:
            jobgen.add_split(job, st.gen)
        job["two_stage"] = ok
        return job
    ok = jobgen.add_coordinates(job, st.gen, PROFILE)
    job["two_stage"] = ok
    if ok and st.gen.random() < 0.3:
        jobgen.add_start_on_supplied(job, st.gen)
    return job


def _nt(j, r):
    if j.get("synthetic_centres"):
        r["probes"]["synthetic_centres"] = 1
    if j["opts"].get("split"):
        r["probes"]["split_with_supplied_atoms"] = 1
    if j.get("ligand_on_cyclic_host") and j["opts"].get("ligands"):
        r["probes"]["ligand_on_cyclic_host"] = 1
    if j.get("resname_with_plus"):
        r["probes"]["resname_with_plus_sign"] = 1
    if j.get("moltype_named_like_residue"):
        r["probes"]["moltype_named_like_residue"] = 1
    if j.get("atom_numbers_restart"):
        r["probes"]["atom_number_column_restarts"] = 1
    if j.get("start_on_supplied"):
        r["probes"]["start_on_supplied_residue"] = 1
    if j.get("pdb_no_box"):
        r["probes"]["pdb_input_without_box_record"] = 1
    if j.get("resid_restart"):
        r["probes"]["resid_restart_inside_molecule"] = 1
    if j.get("coord_ext") == "pdb":
        r["probes"]["pdb_input"] = 1
    return bool(j.get("coord_text")) and bool(j.get("expected_built"))


def run_job(job):
    return wa.run_and_tag(job, _nt)


reductions = jobgen.reductions

"""C13 - generated topology is independent of labelling, ordering and run history."""
import hashlib

from simkit.core import Streams, run_seed, dumps
from simkit import zygotes
from gen import ffgen, histgen
from worlds.params_world import parse_itp_text

PROP = "C13"
LEVEL = "exploration"
RULE = ("families of executions of ONE gen_params job, each member in its own pristine child interpreter: (hash) the job "
        "under PYTHONHASHSEED 0,1,7,1234; (repeat) twice in a row in one process; (fileorder) -f file order and the order of "
        "blocks/links inside the generated files permuted (definitions non-conflicting by construction); (listdir) the same "
        "files installed as a library directory and os.listdir answered in two seeded permutations; (relabel) the .json residue "
        "graph with node keys mapped by a random injection into 0..10^6, node/edge lists shuffled, edge endpoints swapped, "
        "residue ids fixed; (seqfile) DNA / protein strands as line-wrapped .ig / .fasta files; (history) the job after 1-8 other calls incl. failing ones in the same process. Oracle: all members "
        "succeed or all fail with the same exception type; atom tables identical as text; per section the multiset of "
        "(guard, tokens) identical; comment header below the command line identical as a multiset of lines (citation keys in a "
        "quarter of the generated force fields, an earlier -lib call in their histories); consecutive runs byte-identical below the header. non-trivial = the molecule has >= 1 "
        "inter-residue interaction and the family has >= 4 members; distinct = distinct family digests")
ASSUMPTIONS = ["order of interaction lines is not compared (the property speaks of multisets)",
               "generated definitions never define the same interaction twice and never replace an attribute another link selects on"]
REAL_VS_STUB = {"real": ["gen_params end to end incl. load_ff_library, parsers, MapToMolecule, ApplyLinks, ApplyModifications, writer"],
                "stub": ["tqdm disabled", "sys.argv pinned", "os.listdir of the library directory answered by the harness",
                         "polyply DATA_PATH redirected to a scratch directory for generated libraries"]}
PROBES = ["citation_keys_after_library_call", "citation_lines_in_header", "dim_seqfile", "dim_hash", "dim_repeat", "dim_fileorder", "dim_listdir", "dim_relabel", "dim_history", "lib_family",
          "history_with_failed_call", "protein_family_with_terminal_modifications", "dna_family_with_complementary_strand",
          "linktype_family", "replace_link_family", "multi_residue_block_family"]


def n_runs(tier):
    return 300 if tier == "quick" else 30000


def _perm(g, n):
    p = list(range(n))
    g.shuffle(p)
    return p


def gen_job(verif_seed, tier, index):
    seed = run_seed(PROP, verif_seed, index)
    st = Streams(seed)
    g, e = st.gen, st.env
    members = []
    if g.random() < 0.06:
        # DNA strand over a shipped library, mostly with -dsdna (the complementary strand is generated): the listing
        # order / keys of the residues in the .json file must not matter
        rg = histgen.dna_graph(g) if g.random() < 0.7 else histgen.dna_ring_graph(g)
        n = len(rg["resnames"])
        lib = g.choice(["martini2", "parmbsc1"]) if rg["shape"] != "ring" else "martini2"
        ds = g.random() < 0.75
        base = histgen.dna_op(g, rg, lib, ds)
        members.append({"dim": "base", "hashseed": 0, "ops": [base], "observe": 0})
        members.append({"dim": "hash", "hashseed": e.choice(histgen.PALETTE[1:]), "ops": [base], "observe": 0})
        members.append({"dim": "repeat", "hashseed": e.choice(histgen.PALETTE), "ops": [base, base], "observe": 1})
        for k in range(3):
            keys = sorted(e.sample(range(0, 1000), n)) if k == 0 else e.sample(range(0, 10 ** 6), n)
            ne = len(rg["edges"])
            if k == 2:
                keys = list(range(1, n)) + [0]            # key 0 on the residue with the highest resid
            op = histgen.dna_op(g, rg, lib, ds, keys=keys, node_order=_perm(e, n),
                                edge_order=_perm(e, ne), flip=[i for i in range(ne) if e.random() < 0.5])
            members.append({"dim": "relabel", "hashseed": e.choice(histgen.PALETTE), "ops": [op], "observe": 0})
        for _ in range(2):
            # the same strand as a line-wrapped .ig / .fasta sequence file (wrapping must not matter)
            op = dict(base)
            op["graph"] = histgen.dna_file_graph(e, rg)
            members.append({"dim": "seqfile", "hashseed": e.choice(histgen.PALETTE), "ops": [op], "observe": 0})
        return {"index": index, "run_seed": seed, "members": members, "lib": True, "dna": True}
    if g.random() < 0.08:
        # protein over the shipped martini3 library with a json residue graph: terminal modifications are applied
        rg = histgen.protein_graph(g)
        n = len(rg["resnames"])
        base = histgen.protein_op(g, rg)
        members.append({"dim": "base", "hashseed": 0, "ops": [base], "observe": 0})
        members.append({"dim": "hash", "hashseed": e.choice(histgen.PALETTE[1:]), "ops": [base], "observe": 0})
        members.append({"dim": "repeat", "hashseed": e.choice(histgen.PALETTE), "ops": [base, base], "observe": 1})
        for _ in range(2):
            op = histgen.protein_op(g, rg, keys=e.sample(range(0, 10 ** 6), n), node_order=_perm(e, n),
                                    edge_order=_perm(e, n - 1), flip=[i for i in range(n - 1) if e.random() < 0.5])
            members.append({"dim": "relabel", "hashseed": e.choice(histgen.PALETTE), "ops": [op], "observe": 0})
        op = dict(base)
        op["graph"] = {"kind": "seq", "seq": ffgen.seq_list(rg)}
        members.append({"dim": "relabel", "hashseed": e.choice(histgen.PALETTE), "ops": [op], "observe": 0})
        op = dict(base)
        op["graph"] = histgen.protein_fasta_graph(e, rg)
        members.append({"dim": "seqfile", "hashseed": e.choice(histgen.PALETTE), "ops": [op], "observe": 0})
        hist = _history(g, None, None)
        members.append({"dim": "history", "hashseed": e.choice(histgen.PALETTE), "ops": hist + [base], "observe": len(hist)})
        # earlier call in the process on ANOTHER peptide with explicit terminal modifications (-mods)
        rg2 = histgen.protein_graph(g)
        early = histgen.protein_op(g, rg2, out="h.itp")
        early["mods"] = [[f"{rg2['resnames'][0]}1", "NH2-ter"], [f"{rg2['resnames'][-1]}{len(rg2['resnames'])}", "COOH-ter"]]
        members.append({"dim": "history", "hashseed": e.choice(histgen.PALETTE), "ops": [early, base], "observe": 1})
        return {"index": index, "run_seed": seed, "members": members, "lib": True, "protein": True}
    if g.random() < 0.2:
        # a quarter of the library families have a base job that must be refused (block of another library):
        # then every member has to be refused as well, whatever ran before in the process
        base = histgen.lib_op(g, must_fail=g.random() < 0.25)
        base["listdir_perm"] = None
        members.append({"dim": "base", "hashseed": 0, "ops": [base], "observe": 0})
        for hs in histgen.PALETTE[1:]:
            members.append({"dim": "hash", "hashseed": hs, "ops": [base], "observe": 0})
        members.append({"dim": "repeat", "hashseed": e.choice(histgen.PALETTE), "ops": [base, base], "observe": 1})
        for k in range(2):
            op = dict(base)
            op["listdir_perm"] = e.getrandbits(30)
            members.append({"dim": "listdir", "hashseed": e.choice(histgen.PALETTE), "ops": [op], "observe": 0})
        mixed = histgen.lib_mixed_op(g, base)
        if mixed is not None:
            # earlier call over the SAME library and name mixing the base's block with another block
            members.append({"dim": "history", "hashseed": e.choice(histgen.PALETTE), "ops": [mixed, base], "observe": 1})
        for _ in range(2):
            hist = _history(g, None, None)
            # at least one earlier call over a DIFFERENT shipped library (state that leaks between calls shows here)
            hist.insert(g.randint(0, len(hist)), histgen.lib_op(g, out="h.itp", other_than=base["lib"][0]))
            members.append({"dim": "history", "hashseed": e.choice(histgen.PALETTE), "ops": hist + [base],
                            "observe": len(hist)})
        return {"index": index, "run_seed": seed, "members": members, "lib": True}
    if g.random() < 0.1:
        ff, rg = ffgen.gen_ff_linktype(g)
    else:
        ff = ffgen.gen_ff(g, uniform_nrexcl=g.random() < 0.6, removal_p=0.12)
        rg = ffgen.gen_resgraph(g, ff)
    if e.random() < 0.25:
        ff["cites"] = e.sample(["Martini3", "polyply", "PPEs", "M3_sugars", "vermouth", "no_such_entry"], e.randint(1, 3))
    base = histgen.make_op(ff, rg, g, graph_kind="json")
    members.append({"dim": "base", "hashseed": 0, "ops": [base], "observe": 0})
    for hs in g.sample(histgen.PALETTE[1:], g.randint(1, 3)):
        members.append({"dim": "hash", "hashseed": hs, "ops": [base], "observe": 0})
    members.append({"dim": "repeat", "hashseed": e.choice(histgen.PALETTE), "ops": [base, base], "observe": 1})
    # file order / definition order
    for _ in range(g.randint(1, 2)):
        op = dict(base)
        fo = _perm(e, len(ff["files"]))
        io = {str(fi): _perm(e, len(items)) for fi, items in enumerate(ff["files"])}
        op["files"] = ffgen.render_files(ff, file_order=fo, item_orders=io)
        members.append({"dim": "fileorder", "hashseed": e.choice(histgen.PALETTE), "ops": [op], "observe": 0})
    # library directory + listdir permutations
    for _ in range(g.randint(0, 2)):
        op = dict(base)
        # a library directory is read flat: same-named files in sub-directories get distinct flat names here
        op["files"] = [("libs/genlib/" + fn.replace("/", "_"), txt) for fn, txt in base["files"]]
        op["inpath_none"] = True
        op["data_path"] = "libs"
        op["lib"] = ["genlib"]
        op["listdir_perm"] = e.getrandbits(30)
        members.append({"dim": "listdir", "hashseed": e.choice(histgen.PALETTE), "ops": [op], "observe": 0})
    # relabelled residue graph
    n = len(rg["resnames"])
    for _ in range(g.randint(1, 2)):
        keys = e.sample(range(0, 10 ** 6), n)
        op = dict(base)
        op["graph"] = {"kind": "json", "text": ffgen.graph_json(rg, keys=keys, node_order=_perm(e, n),
                                                                 edge_order=_perm(e, len(rg["edges"])),
                                                                 flip=[i for i in range(len(rg["edges"])) if e.random() < 0.5])}
        members.append({"dim": "relabel", "hashseed": e.choice(histgen.PALETTE), "ops": [op], "observe": 0})
    if rg["shape"] == "linear" and not rg.get("edge_attrs") and not rg.get("tags") and not rg.get("from_itp") \
            and rg.get("resid_start") is None:
        op = dict(base)
        op["graph"] = {"kind": "seq", "seq": ffgen.seq_list(rg)}
        members.append({"dim": "relabel", "hashseed": e.choice(histgen.PALETTE), "ops": [op], "observe": 0})
    if ff.get("multires") and rg.get("from_itp") and len(ff["blocks"][ff["multires"]["comp"][0]]["atoms"]) >= 2:
        # earlier call in the process whose building block has the same name and number of atoms but is divided into
        # residues differently
        import copy
        ff2 = copy.deepcopy(ff)
        ff2["multires"]["split_first"] = True
        rg2 = ffgen.gen_resgraph(random_like(g), ff2)
        if rg2.get("from_itp"):
            members.append({"dim": "history", "hashseed": e.choice(histgen.PALETTE),
                            "ops": [histgen.make_op(ff2, rg2, g, out="h.itp", graph_kind="json"), base], "observe": 1})
    if g.random() < 0.4:
        # earlier call whose input files had the SAME paths and modification times but other content (the calls of
        # this history share one input directory; time stamps preserved as by cp -p)
        ff2 = ffgen.gen_ff(g)
        ff2["same_names"] = ff.get("same_names")
        rg2 = ffgen.gen_resgraph(g, ff2)
        early = histgen.make_op(ff2, rg2, g, out="h.itp")
        early["shared_inputs"] = True
        members.append({"dim": "history", "hashseed": e.choice(histgen.PALETTE),
                        "ops": [early, dict(base, shared_inputs=True)], "observe": 1, "shared_inputs": True})
    # history
    for _ in range(g.randint(1, 2)):
        hist = _history(g, ff, rg)
        if ff.get("cites"):
            # an earlier call that read the .bib of a shipped library: its entries must not be known to later calls
            hist.insert(e.randint(0, len(hist)), {"op": "gen_params", "name": "LIBMOL", "files": [], "lib": ["martini3"],
                                                  "graph": {"kind": "seq", "seq": ["PEO:3"]}, "out": "h.itp",
                                                  "resgraph": None})
        members.append({"dim": "history", "hashseed": e.choice(histgen.PALETTE), "ops": hist + [base], "observe": len(hist)})
    return {"index": index, "run_seed": seed, "members": members, "lib": False, "cites": bool(ff.get("cites"))}


def random_like(g):
    import random
    return random.Random(g.getrandbits(48))


def _history(g, ff, rg):
    ops = []
    for k in range(g.randint(1, 8)):
        r = g.random()
        ff2 = ffgen.gen_ff(g) if (ff is None or g.random() < 0.6) else ff
        rg2 = ffgen.gen_resgraph(g, ff2)
        out = g.choice(["out.itp", "h.itp"])
        if r < 0.3:
            ops.append(histgen.failing_op(g, ff2, rg2, out=out))
        elif r < 0.45:
            ops.append(histgen.lib_op(g, out=out))
        else:
            ops.append(histgen.make_op(ff2, rg2, g, out=out))
    return ops


def _observe(res, k):
    r = res["ops"][k]
    if r["status"] != "ok" or r.get("out_text") is None:
        return {"status": r["status"], "error": r.get("error")}
    p = parse_itp_text(r["out_text"])
    secs = {s: sorted((str(g), " ".join(t)) for g, t in v) for s, v in p["sections"].items()}
    hdr = [ln.strip() for ln in p["header"] if ln.strip(" ;")]
    k = next((i for i, ln in enumerate(hdr) if "Please cite" in ln), None)
    return {"status": "ok", "atoms": p["atoms"], "moltype": p["moleculetype"], "sections": secs, "body": p["body"],
            "cites": sorted(hdr[k + 1:]) if k is not None else None}


def run_job(job):
    obs = []
    raw = []
    for m in job["members"]:
        ops = []
        for op in m["ops"]:
            op = dict(op)
            if op.pop("inpath_none", False):
                # files are installed as a library: they are written by the op but not passed with -f
                op["files_as_library"] = True
            ops.append(op)
        res = zygotes.run_history(m["hashseed"], {"ops": ops, "roundtrip": False})
        raw.append(res)
        obs.append(_observe(res, m["observe"]))
    viols = []
    probes = {}
    base = obs[0]
    h = hashlib.sha256()
    for m, o, res in zip(job["members"], obs, raw):
        h.update(dumps([m["dim"], o.get("status"), o.get("atoms"), o.get("sections")]).encode())
        probes["dim_" + m["dim"]] = probes.get("dim_" + m["dim"], 0) + 1
        if m["dim"] == "history" and any(r["status"] != "ok" for r in res["ops"][:m["observe"]]):
            probes["history_with_failed_call"] = probes.get("history_with_failed_call", 0) + 1
        if m["dim"] == "base":
            continue
        tag = m["dim"]
        facts = {"dimension": tag, "hashseed": m["hashseed"]}
        if o["status"] != base["status"]:
            viols.append({"property": PROP, "clause": "outcome", "seq": 0, "facts": facts,
                          "msg": f"[{tag}] base run {base['status']} ({base.get('error')}) but this member "
                                 f"{o['status']} ({o.get('error')})"})
            continue
        if o["status"] != "ok":
            continue
        if o["atoms"] != base["atoms"] or o["moltype"] != base["moltype"]:
            diff = next((i for i, (a, b) in enumerate(zip(o["atoms"], base["atoms"])) if a != b), None)
            viols.append({"property": PROP, "clause": "atoms", "seq": 0, "facts": facts,
                          "msg": f"[{tag}] atom table differs from the base run (first difference at atom "
                                 f"{diff}: {o['atoms'][diff] if diff is not None and diff < len(o['atoms']) else None!r} vs "
                                 f"{base['atoms'][diff] if diff is not None else None!r}; {len(o['atoms'])} vs {len(base['atoms'])} atoms)"})
            continue
        if o["sections"] != base["sections"]:
            sec = next(s for s in sorted(set(o["sections"]) | set(base["sections"]))
                       if o["sections"].get(s) != base["sections"].get(s))
            a, b = o["sections"].get(sec, []), base["sections"].get(sec, [])
            only_a = [x for x in a if x not in b][:2]
            only_b = [x for x in b if x not in a][:2]
            viols.append({"property": PROP, "clause": "interactions", "seq": 0, "facts": facts,
                          "msg": f"[{tag}] multiset of [{sec}] lines differs from the base run: only here {only_a}, "
                                 f"only in base {only_b}"})
            continue
        if o.get("cites") != base.get("cites"):
            a, b = o.get("cites") or [], base.get("cites") or []
            viols.append({"property": PROP, "clause": "header", "seq": 0, "facts": facts,
                          "msg": f"[{tag}] comment header below the command line differs from the base run: only here "
                                 f"{[x for x in a if x not in b][:2]}, only in base {[x for x in b if x not in a][:2]}"})
            continue
        if m["dim"] == "repeat":
            first = _observe(res, m["observe"] - 1)
            if first.get("body") != o.get("body"):
                viols.append({"property": PROP, "clause": "repeat", "seq": 0, "facts": facts,
                              "msg": "two consecutive identical runs in one process wrote different files (below the header)"})
    if job.get("cites"):
        probes["citation_keys_after_library_call"] = 1
        if base.get("cites"):
            probes["citation_lines_in_header"] = 1
    if job.get("lib"):
        probes["lib_family"] = 1
    if not job.get("lib"):
        txt = " ".join(t for _f, t in job["members"][0]["ops"][0].get("files", []))
        if '"linktype"' in txt:
            probes["linktype_family"] = 1
        if '"replace"' in txt:
            probes["replace_link_family"] = 1
        if (job["members"][0]["ops"][0].get("resgraph") or {}).get("from_itp"):
            probes["multi_residue_block_family"] = 1
    if job.get("protein"):
        probes["protein_family_with_terminal_modifications"] = 1
    if job.get("dna"):
        probes["dna_family_with_complementary_strand"] = 1
    digest = h.hexdigest()[:24]
    inter_res = base["status"] == "ok" and any(base["sections"].get(s) for s in ("bonds", "constraints")) and \
        len({a.split()[2] for a in base["atoms"]}) >= 2
    return {"status": "violation" if viols else "ok", "violations": viols[:5], "digest": digest,
            "events": sum(len(r["ops"]) for r in raw), "signature": "".join(m["dim"][0] for m in job["members"]),
            "ntkey": digest, "nontrivial": bool(inter_res and len(job["members"]) >= 4),
            "faults": {"failing_call_in_history": sum(1 for r in raw for x in r["ops"] if x["status"] != "ok")},
            "probes": probes,
            "sample": {"members": [(m["dim"], m["hashseed"], len(m["ops"])) for m in job["members"]],
                       "base_graph": job["members"][0]["ops"][0]["graph"] if job["members"][0]["ops"][0]["graph"]["kind"] == "seq"
                       else (job["members"][0]["ops"][0].get("resgraph")),
                       "base_status": base["status"], "natoms": len(base.get("atoms") or [])}}


def reductions(job):
    ms = job["members"]
    for i in range(1, len(ms)):
        cand = dict(job)
        cand["members"] = ms[:i] + ms[i + 1:]
        yield cand
    for i, m in enumerate(ms):
        if m["dim"] == "history" and len(m["ops"]) > 1:
            for k in range(len(m["ops"]) - 1):
                cand = dict(job)
                nm = dict(m)
                nm["ops"] = m["ops"][:k] + m["ops"][k + 1:]
                nm["observe"] = m["observe"] - 1
                cand["members"] = ms[:i] + [nm] + ms[i + 1:]
                yield cand
        if m["hashseed"] != 0 and m["dim"] != "hash":
            cand = dict(job)
            nm = dict(m)
            nm["hashseed"] = 0
            cand["members"] = ms[:i] + [nm] + ms[i + 1:]
            yield cand

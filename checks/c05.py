from gen import jobgen
from checks import _world_a as wa

PROP = "C05"
LEVEL = "exploration"
RULE = "tbd"
ASSUMPTIONS = wa.ASSUMPTIONS
REAL_VS_STUB = wa.REAL_VS_STUB
PROBES = wa.PROBES
PROFILE = {}


def n_runs(tier):
    return 400 if tier == "quick" else 40000


def gen_job(verif_seed, tier, index):
    job, st = jobgen.base_job(PROP, verif_seed, tier, index, PROFILE)
    return job


def run_job(job):
    return wa.run_and_tag(job, lambda j, r: True)


reductions = jobgen.reductions

"""C05 - generated residues are one step apart, inside the box, never overlapping."""
from gen import jobgen
from checks import _world_a as wa

PROP = "C05"
LEVEL = "exploration"
RULE = ("seeded gen_coords runs with dense, tiny, cubic, non-cubic and density-derived boxes over-represented, user "
        "grids, step factors, force limits, branched and cyclic residue graphs; invariants evaluated on EVERY position the "
        "neighbour engine receives while the run proceeds (inside the box; start on a grid row; minimum-image step length "
        "to the residue it is grown from; >= 0.1 nm to every positioned residue; 12-6 force from positioned non-neighbour "
        "residues within the cut-off <= max force, computed by the reference model with true minimum-image vectors); "
        "non-trivial = at least one residue was placed with other residues inside the cut-off; distinct = distinct "
        "event-log digests")
ASSUMPTIONS = wa.ASSUMPTIONS + ["where twice the step length reaches the smallest box edge the literal minimum-image reading "
                                "is undefined; there the oracle demands that some periodic image of the displacement has the step length"]
REAL_VS_STUB = wa.REAL_VS_STUB
PROBES = wa.PROBES + ["large_system_second_tree", "earlier_call_same_topology_paths", "size_ratio_above_4", "bending_constants", "ring_soup", "placed_interacting_across_boundary", "step_longer_than_half_box", "user_grid", "same_name_other_size_in_molecule", "force_limit_of_attractive_order"]
PROFILE = {"box_modes": ["dense", "dense", "tiny", "cubic", "noncubic", "density"], "p_gs": 0.5, "p_sf": 0.5, "p_mf": 0.5,
           "faults": ["step", "start", "overlap"], "n_entries": (1, 4), "max_molecules": 12,
           "shapes": ["single", "linear", "linear", "star", "comb", "tree", "ring"]}


def n_runs(tier):
    return 400 if tier == "quick" else 40000


def gen_job(verif_seed, tier, index):
    job, st = jobgen.base_job(PROP, verif_seed, tier, index, PROFILE)
    g = st.gen
    if g.random() < 0.02 and jobgen.make_large_system(job, g):
        return job
    if g.random() < 0.1:
        # one short molecule in a box barely larger than a step: steps longer than half the box
        from gen import topgen
        spec = job["spec"]
        spec["molecules"] = [[spec["molecules"][0][0], 1]]
        size = max(topgen.est_size(rt) for rt in spec["restypes"].values())
        edge = round(g.uniform(1.3, 1.9) * size + 0.2, 3)
        job["opts"].pop("density", None)
        job["opts"]["box"] = [edge, edge, edge]
        job["tiny_box"] = True
    elif g.random() < 0.17:
        # ring soup: many small rings - the ring-closing residue has a second, already positioned bonded
        # neighbour (excluded from the force, but not from the 0.1 nm floor)
        from gen import topgen
        spec = job["spec"]
        mt = spec["moltypes"][0]
        n = g.choice([3, 3, 3, 4])
        rn = sorted(spec["restypes"])[0]
        mt.update({"shape": "ring", "residues": [rn] * n, "edges": [[k, k + 1] for k in range(n - 1)] + [[0, n - 1]]})
        spec["molecules"] = [[mt["name"], g.randint(25, 60)]]
        job["opts"].pop("density", None)
        job["opts"].update(topgen.choose_box(g, spec, {"box_modes": ["cubic", "noncubic"]}))
        job["ring_soup"] = True
    if not job.get("tiny_box") and not job.get("ring_soup") and len(job["spec"]["restypes"]) >= 2 and g.random() < 0.15:
        # very different residue sizes (given as [ volumes ]): the cut-off is twice the LARGEST size whatever is placed
        from gen import topgen
        names = sorted(job["spec"]["restypes"])
        big = g.choice(names)
        job["bld_volumes"] = {n: (round(g.uniform(1.2, 1.7), 2) if n == big else round(g.uniform(0.2, 0.3), 2)) for n in names}
        job["user_volumes"] = dict(job["bld_volumes"])
        nres = topgen.n_residues(job["spec"])
        edge = round(max(4.0, (nres * 1.3 ** 3) ** (1 / 3)), 3)
        job["opts"].pop("density", None)
        job["opts"]["box"] = [edge, edge, edge]
        job["size_ratio"] = True
    if not job.get("bld_volumes") and g.random() < 0.12:
        jobgen.add_bigger_variant(job, g)       # same residue name, different size inside one molecule
    if g.random() < 0.06:
        job["opts"]["max_force"] = 1e200          # a finite limit so large that only the 0.1 nm floor is left
        job["huge_force_limit"] = True
    elif g.random() < 0.1:
        job["opts"]["max_force"] = g.choice([3.0, 6.0, 12.0, 30.0])      # limit of the order of the attractive forces
        job["low_force_limit"] = True
    if g.random() < 0.25:
        jobgen.add_user_grid(job, g)
    if g.random() < 0.2:
        # sequence dependent bending constants: the Monte-Carlo bending acceptance (random.uniform) joins the walk
        names = sorted(job["spec"]["restypes"])
        job["bld_bending"] = [[g.choice(names), g.choice(names), g.choice(names), g.choice([1.0, 5.0, 20.0])]
                              for _ in range(g.randint(1, 3))]
    if g.random() < 0.15:
        jobgen.add_coordinates(job, g, {"coord_modes": ["prefix", "meta_prefix", "res", "ign", "ign"]})
    if job.get("coord_text") is None and not job.get("bld_volumes") and g.random() < 0.1:
        jobgen.add_pre_variant(job, g, g.choice(["other_geometry", "other_graph"]))
    return job


def _tag(job, res):
    if job.get("grid_points") is not None:
        res["probes"]["user_grid"] = 1
    if job.get("large_system"):
        res["probes"]["large_system_second_tree"] = 1
    if job.get("ring_soup"):
        res["probes"]["ring_soup"] = 1
    if job.get("bld_bending"):
        res["probes"]["bending_constants"] = 1
    if job.get("bigger_variant"):
        res["probes"]["same_name_other_size_in_molecule"] = 1
    if job.get("low_force_limit"):
        res["probes"]["force_limit_of_attractive_order"] = 1
    if job.get("size_ratio"):
        res["probes"]["size_ratio_above_4"] = 1
    return bool(res["probes"].get("placed_with_neighbours_in_cutoff"))


def run_job(job):
    return wa.run_and_tag(job, _tag)


reductions = jobgen.reductions

#!/usr/bin/env python3
"""Run the repository's pinned test suite and compare with BASELINE.json's stable_pass.

usage: baseline_check.py [repo_dir]   (default /repo)
exit 0 iff every stable_pass test passes.
"""
import json, subprocess, sys, tempfile, os
import xml.etree.ElementTree as ET

repo = sys.argv[1] if len(sys.argv) > 1 else "/repo"
base = json.load(open("/root/.vp/BASELINE.json"))
stable = set(base["stable_pass"])
with tempfile.TemporaryDirectory() as td:
    xml = os.path.join(td, "r.xml")
    env = dict(os.environ)
    env.pop("MARRINK_LAB_POLYPLY_1_0_VERIF", None)
    env["PYTHONPATH"] = repo
    subprocess.run(["/venv/bin/python", "-m", "pytest", "-q", "-p", "no:cacheprovider",
                    "--timeout=900", "--continue-on-collection-errors", "-n", "8",
                    "--junitxml=" + xml], cwd=repo, env=env,
                   stdout=subprocess.DEVNULL, stderr=subprocess.DEVNULL)
    root = ET.parse(xml).getroot()
passed = set()
for tc in root.iter("testcase"):
    bad = any(ch.tag in ("failure", "error", "skipped") for ch in tc)
    if not bad:
        passed.add(tc.get("classname") + "::" + tc.get("name"))
missing = sorted(stable - passed)
print(f"stable_pass={len(stable)} passed_now={len(passed)} stable_missing={len(missing)}")
for m in missing[:40]:
    print("  MISSING", m)
sys.exit(1 if missing else 0)

#!/usr/bin/env python3
"""Determinism self-test on a larger sample (run by hand; result kept in selftest/determinism_report.json).

For every claimed property and several VERIF_SEED values: the quick batch is run in a 16-worker pool and all event-log
digests are dumped; a sample of run indices is then recomputed (a) sequentially in ONE fresh interpreter under another
PYTHONHASHSEED, (b) in a 3-worker pool.  Any digest mismatch is reported.
usage: determinism.py [--seeds 0,1] [--sample 60] [props...]
"""
import json, os, subprocess, sys, tempfile, random

HERE = os.path.dirname(os.path.dirname(os.path.abspath(__file__)))
PY = "/venv/bin/python"
PROPS = "C03 C04 C05 C06 C07 C11 C13 C15 C16 C17 C20".split()


def main():
    args = [a for a in sys.argv[1:] if not a.startswith("--")]
    opts = dict(a[2:].split("=") for a in sys.argv[1:] if a.startswith("--"))
    seeds = [int(x) for x in opts.get("seeds", "0,1").split(",")]
    sample = int(opts.get("sample", "60"))
    props = args or PROPS
    report = {}
    bad = 0
    for prop in props:
        for seed in seeds:
            with tempfile.TemporaryDirectory() as td:
                f16 = os.path.join(td, "d16.json")
                env = dict(os.environ, VERIF_SEED=str(seed), VERIF_DUMP_DIGESTS=f16, VERIF_REPO="/repo_unused")
                env.pop("VERIF_REPO")
                # the batch itself (16 workers); evidence of this run goes to a scratch dir via a fake VERIF_REPO? no:
                # keep /verif/evidence untouched by pointing the output root elsewhere
                env["VERIF_OUT_ROOT"] = td
                r = subprocess.run([PY, os.path.join(HERE, "check.py"), prop, "--tier", "quick", "--no-selftest"],
                                   env=env, capture_output=True, text=True, cwd=HERE)
                d16 = json.load(open(f16))
                idxs = sorted(d16, key=int)
                rnd = random.Random(seed)
                pick = sorted(rnd.sample(idxs, min(sample, len(idxs))), key=int)
                # (a) one fresh interpreter, other hash seed, sequential
                env2 = dict(os.environ, VERIF_SEED=str(seed), PYTHONHASHSEED=str(4242 + seed), VERIF_NO_REEXEC="1")
                out = subprocess.run([PY, os.path.join(HERE, "check.py"), prop, "--tier", "quick", "--digests", ",".join(pick)],
                                     env=env2, capture_output=True, text=True, cwd=HERE)
                fresh = {l.split()[1]: l.split()[2] for l in out.stdout.splitlines() if l.startswith("DIGEST ")}
                # (b) 3-worker pool
                f3 = os.path.join(td, "d3.json")
                env3 = dict(env, VERIF_DUMP_DIGESTS=f3)
                subprocess.run([PY, os.path.join(HERE, "check.py"), prop, "--tier", "quick", "--no-selftest", "--jobs", "3",
                                "--runs", str(min(len(idxs), 120))], env=env3, capture_output=True, text=True, cwd=HERE)
                d3 = json.load(open(f3)) if os.path.exists(f3) else {}
            mism_fresh = [i for i in pick if fresh.get(i) != d16[i]]
            mism_3 = [i for i in d3 if d3[i] != d16.get(i)]
            report[f"{prop}:{seed}"] = {"batch": len(d16), "fresh_interpreter_other_hashseed": len(fresh),
                                        "mismatch_fresh": mism_fresh, "three_worker_pool": len(d3), "mismatch_3": mism_3,
                                        "batch_rc": r.returncode}
            bad += len(mism_fresh) + len(mism_3)
            print(prop, seed, report[f"{prop}:{seed}"], flush=True)
    with open(os.path.join(HERE, "selftest", "determinism_report.json"), "w") as fh:
        json.dump(report, fh, indent=1)
    print("MISMATCHES", bad)
    sys.exit(1 if bad else 0)


if __name__ == "__main__":
    main()

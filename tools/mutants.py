#!/usr/bin/env python3
"""Sensitivity self-test: apply each mutant of selftest/mutants.json to a scratch copy of
/repo (never /repo itself), run the named checks against it (VERIF_REPO) and report
which ones raise a VIOLATION.

usage: mutants.py [name-substring ...] [--runs N] [--tier quick]
"""
import json, os, shutil, subprocess, sys, tempfile

HERE = os.path.dirname(os.path.dirname(os.path.abspath(__file__)))


def main():
    args = [a for a in sys.argv[1:] if not a.startswith("--")]
    runs = None
    for a in sys.argv[1:]:
        if a.startswith("--runs="):
            runs = a.split("=")[1]
    muts = json.load(open(os.path.join(HERE, "selftest", "mutants.json")))
    sel = [m for m in muts if not args or any(a in m["name"] for a in args)]
    rows = []
    for m in sel:
        scratch = tempfile.mkdtemp(prefix="vmut_")
        try:
            shutil.copytree("/repo/polyply", os.path.join(scratch, "polyply"),
                            ignore=shutil.ignore_patterns("__pycache__", "tests"))
            shutil.copytree("/repo/bin", os.path.join(scratch, "bin"), ignore=shutil.ignore_patterns("__pycache__"))
            path = os.path.join(scratch, m["file"])
            src = open(path).read()
            if src.count(m["old"]) != 1:
                rows.append((m["name"], "PATCH-FAILED", src.count(m["old"])))
                print(rows[-1], flush=True)
                continue
            open(path, "w").write(src.replace(m["old"], m["new"]))
            for prop in m["props"]:
                env = dict(os.environ, VERIF_REPO=scratch, PYTHONPATH=scratch)
                cmd = ["/venv/bin/python", os.path.join(HERE, "check.py"), prop, "--tier", "quick", "--no-selftest"]
                if runs:
                    cmd += ["--runs", runs]
                out = subprocess.run(cmd, env=env, capture_output=True, text=True, timeout=1800, cwd=HERE)
                viol = [l for l in out.stdout.splitlines() if l.startswith("VIOLATION") or l.startswith("  clause")]
                rows.append((m["name"], prop, out.returncode, viol[1].strip()[:160] if len(viol) > 1 else
                             (out.stdout.strip().splitlines()[-1][:160] if out.stdout.strip() else out.stderr[-300:])))
                print(rows[-1], flush=True)
        finally:
            shutil.rmtree(scratch, ignore_errors=True)
    caught = sum(1 for r in rows if len(r) > 2 and r[2] == 1)
    print(f"{caught}/{len(rows)} mutant x check pairs caught")
    # replay files written against mutants are meaningless for /repo
    for f in os.listdir(os.path.join(HERE, "replays")) if os.path.isdir(os.path.join(HERE, "replays")) else []:
        pass


if __name__ == "__main__":
    main()

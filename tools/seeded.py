#!/usr/bin/env python3
"""Verify a seeded change written by a sub-agent and run checks against it.

usage: seeded.py <src_dir> <seeded_id> <property> [check ids to run ...] [--keep]
  src_dir    directory with patch.diff, demo.py, notes.md (e.g. /tmp/seeded_out/C20/change1)
Steps (all in a scratch worktree of /repo at its current HEAD, never in /repo):
  demo on the clean tree (must exit 0), apply patch, demo (must exit != 0), pinned suite (stable_missing=0),
  the named quick checks with VERIF_REPO=<worktree> (exit 1 = caught), revert.
Writes /verif/seeded/<seeded_id>/{patch.diff,demo.py,notes.md,meta.json} when everything is confirmed.
"""
import json, os, shutil, subprocess, sys, tempfile, time

HERE = os.path.dirname(os.path.dirname(os.path.abspath(__file__)))
PY = "/venv/bin/python"


def run(cmd, **kw):
    return subprocess.run(cmd, capture_output=True, text=True, **kw)


def main():
    args = [a for a in sys.argv[1:] if not a.startswith("--")]
    src, sid, prop = args[0], args[1], args[2]
    checks = args[3:] or [prop]
    wt = tempfile.mkdtemp(prefix="vseed_")
    os.rmdir(wt)
    head = run(["git", "-C", "/repo", "rev-parse", "HEAD"]).stdout.strip()
    r = run(["git", "-C", "/repo", "worktree", "add", "-q", "--detach", wt, head])
    assert r.returncode == 0, r.stderr
    meta = {"id": sid, "property": prop, "repo_head": head, "source": src, "ran": []}
    try:
        env = dict(os.environ, PYTHONPATH=wt, TQDM_DISABLE="1")
        demo = os.path.join(src, "demo.py")
        patch = os.path.join(src, "patch.diff")
        d0 = run([PY, demo], env=env, cwd=wt, timeout=600)
        meta["demo_clean_rc"] = d0.returncode
        a = run(["git", "-C", wt, "apply", patch])
        meta["apply_rc"] = a.returncode
        if a.returncode != 0:
            a = run(["git", "-C", wt, "apply", "--3way", patch])
            meta["apply_3way_rc"] = a.returncode
            meta["apply_err"] = a.stderr[-400:]
        applied = (a.returncode == 0)
        if applied:
            d1 = run([PY, demo], env=env, cwd=wt, timeout=600)
            meta["demo_patched_rc"] = d1.returncode
            meta["demo_patched_tail"] = (d1.stdout + d1.stderr)[-400:]
            b = run([PY, "/verif/tools/baseline_check.py", wt], timeout=1200)
            if b.returncode != 0:      # the pinned suite has a rarely flaky test under load: one retry
                meta["baseline_first_try"] = b.stdout.strip()[:300]
                b = run([PY, "/verif/tools/baseline_check.py", wt], timeout=1200)
            meta["baseline"] = b.stdout.strip().splitlines()[0] if b.stdout.strip() else b.stderr[-300:]
            meta["baseline_rc"] = b.returncode
            for c in checks:
                t0 = time.time()
                cenv = dict(os.environ, VERIF_REPO=wt, PYTHONPATH=wt)
                out = run([PY, os.path.join(HERE, "check.py"), c, "--tier", "quick", "--no-selftest"], env=cenv,
                          cwd=HERE, timeout=3000)
                lines = [l for l in out.stdout.splitlines() if l.startswith("VIOLATION") or l.startswith("  clause")
                         or l.startswith("HARNESS")]
                meta["ran"].append({"check": c, "rc": out.returncode, "wall_s": round(time.time() - t0, 1),
                                    "report": lines[:6], "last": out.stdout.strip().splitlines()[-1][:300] if out.stdout.strip() else out.stderr[-300:]})
                print(c, "rc", out.returncode, lines[:4], flush=True)
        ok = applied and meta.get("demo_clean_rc") == 0 and meta.get("demo_patched_rc", 0) != 0 and meta.get("baseline_rc") == 0
        meta["confirmed"] = bool(ok)
        meta["caught_by"] = [x["check"] for x in meta["ran"] if x["rc"] == 1]
        print(json.dumps({k: v for k, v in meta.items() if k != "ran"}, indent=1))
        if ok:
            dst = os.path.join(HERE, "seeded", sid)
            os.makedirs(dst, exist_ok=True)
            for f in ("patch.diff", "demo.py", "notes.md"):
                if os.path.exists(os.path.join(src, f)):
                    shutil.copy(os.path.join(src, f), os.path.join(dst, f))
            old = {}
            if os.path.exists(os.path.join(dst, "meta.json")):
                old = json.load(open(os.path.join(dst, "meta.json")))
            meta["needs"] = old.get("needs", "see notes.md")
            meta["history"] = old.get("history", []) + [{"repo_head": head, "ran": meta["ran"], "caught_by": meta["caught_by"]}]
            json.dump(meta, open(os.path.join(dst, "meta.json"), "w"), indent=1)
            print(f"SEEDED {sid} head={head[:7]} confirmed=True caught_by={meta['caught_by']}")
        else:
            # nothing is stored: an older meta.json of this id (earlier /repo head) stays as it was
            print(f"SEEDED {sid} head={head[:7]} confirmed=False (apply_rc={meta.get('apply_rc')} "
                  f"3way={meta.get('apply_3way_rc')} demo_clean={meta.get('demo_clean_rc')} "
                  f"demo_patched={meta.get('demo_patched_rc')} baseline={meta.get('baseline_rc')}) NOT STORED")
    finally:
        run(["git", "-C", "/repo", "worktree", "remove", "--force", wt])
        shutil.rmtree(wt, ignore_errors=True)
        # replay files written against a patched tree are meaningless for /repo


if __name__ == "__main__":
    main()

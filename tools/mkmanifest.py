#!/usr/bin/env python3
"""Regenerates MANIFEST.json from the table below (kept in one place so it stays valid)."""
import json, os
HERE = os.path.dirname(os.path.dirname(os.path.abspath(__file__)))
PY = "/venv/bin/python"

CHECKS = {
 "C16": dict(level="exploration", design="§4 C16, §3 world B", quick_t=300, thorough_t=3600,
   text="Seeded operation histories on the real NonBondEngine, compared operation by operation with a brute-force "
        "reference model (positions dict + minimum-image 12-6 arithmetic) plus a white-box cross-check of the four internal views; "
        "sampling, not proof: histories up to 80 operations, <= 3 small molecules or 5000+ residues around the new-tree threshold.",
   note="Trusted: scipy KDTree, numpy. Re-adding a positioned residue without removal is treated as outside the contract.",
   technique="deterministic simulation: seeded op histories vs executable reference model"),
}

NOT_APPLICABLE = {
 "C01": "pure input->output (block copy / re-index); no schedule, fault, time or history in the statement for a simulator to vary",
 "C02": "pure input->output (link matching iff-rule); needs an independent matcher over inputs, not a simulator",
 "C08": "pure function of the include tree; equivalence to the flattened file relates two inputs",
 "C09": "pure table lookup / arithmetic on parsed tables",
 "C10": "pure function of the built molecule (edge recount vs warnings)",
 "C12": "pure parsers / graph builders; random mixes are excluded by the property's own premise",
 "C14": "pure function of the built molecule (exclusion set by graph distance)",
 "C18": "pure selection logic over option strings; only the ligand clause touches the walk and is not enough to decide the property",
 "C19": "pure function of the sequence (complement involution)",
}

def main():
    claimed = sorted(CHECKS)
    all_ids = [json.loads(l)["id"] for l in open(os.path.join(HERE, "properties.jsonl"))]
    na = dict(NOT_APPLICABLE)
    for pid in all_ids:
        if pid not in claimed and pid not in na:
            na[pid] = "claimed in DESIGN.md; check not built yet (work in progress)"
    man = {
     "version": 1,
     "setup_cmd": PY + " -c \"import polyply, numpy, scipy, networkx, vermouth\"",
     "hooks": {"guard": "MARRINK_LAB_POLYPLY_1_0_VERIF",
               "enable": "no source hooks: all seams are monkeypatches installed by /verif at run time (checks set MARRINK_LAB_POLYPLY_1_0_VERIF=1 for form only)",
               "baseline_off_cmd": "cd /repo && /venv/bin/python -m pytest -ra -q -p no:cacheprovider --timeout=900 --continue-on-collection-errors",
               "source_commits": [], "add_only": True},
     "engines": [{"name": "simkit", "path": "/verif/simkit", "serves_properties": claimed,
                  "kind_free_text": "in-house deterministic simulation kit: seeded PRNG streams, decision tape, event recorder, greedy minimiser, replay files"}],
     "checks": [],
     "not_applicable": [{"property_id": k, "reason": v} for k, v in sorted(na.items()) if k not in claimed],
     "notes": "All checks: cd /verif && /venv/bin/python check.py <ID> --tier quick|thorough ; VERIF_SEED selects the batch; exit 0/1/2 = held / VIOLATION / HARNESS-ERROR. Genuine defects repaired by fix: commits are listed in known_findings.json.",
    }
    for pid in claimed:
        c = CHECKS[pid]
        man["checks"].append({
            "property_id": pid,
            "quick_cmd": f"timeout {c['quick_t']} {PY} check.py {pid} --tier quick",
            "thorough_cmd": f"timeout {c['thorough_t']} {PY} check.py {pid} --tier thorough --budget {int(c['thorough_t']*0.8)}",
            "evidence_file": f"/verif/evidence/{pid}.json",
            "replay_cmd_template": f"{PY} check.py {pid} --replay {{path}}",
            "engine": "simkit",
            "level_claimed": {"category": c["level"], "text": c["text"], "design_ref": c["design"]},
            "level_note": c["note"],
            "technique": c["technique"],
        })
    with open(os.path.join(HERE, "MANIFEST.json"), "w") as fh:
        json.dump(man, fh, indent=1)
    print("claimed", claimed, "not_applicable", [x["property_id"] for x in man["not_applicable"]])

if __name__ == "__main__":
    main()

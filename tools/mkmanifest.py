#!/usr/bin/env python3
"""Regenerates MANIFEST.json from the table below (kept in one place so it stays valid)."""
import json, os
HERE = os.path.dirname(os.path.dirname(os.path.abspath(__file__)))
PY = "/venv/bin/python"

CHECKS = {
 "C03": dict(level="exploration", design="§4 C03, §3 world A", quick_t=600, thorough_t=3600,
   text="Seeded end-to-end gen_coords runs under RNG control and injected placement/optimiser faults; the written .gro is compared with the generator's ground truth (atom count, order, residue numbers/names, atom names, finite coordinates, box precedence and density box). Sampling of generated topologies/option sets/fault tapes, not proof.",
   note="Trusted: numpy/scipy/networkx/vermouth; the workload generator's bounds (<= 3 molecule types, <= 12 molecules, <= 10 residues each). -split and -lig are not generated.",
   technique="deterministic simulation with fault injection: seeded RNG + decision tape on placement/optimiser seams, output vs ground truth"),
 "C04": dict(level="exploration", design="§4 C04, §3 world A", quick_t=600, thorough_t=3600,
   text="Two-stage seeded runs (earlier build re-supplied as -c/-mc (.gro and .pdb), cut, -res, -ign, -mc with -res, an earlier call in the same process reading another structure from the same path) with forced failed attempts; history + final-state oracle that supplied coordinates are never altered, discarded or rebuilt and ignored molecules never take part.",
   note="Trusted as for C03. Ignored molecules are always fully supplied in the input (otherwise gen_coords cannot write them).",
   technique="deterministic simulation with fault injection: forced failed placement attempts on partially supplied systems, history invariants"),
 "C05": dict(level="exploration", design="§4 C05, §3 world A", quick_t=600, thorough_t=3600,
   text="Invariants evaluated on every position handed to the neighbour engine during seeded builds (box, start grid, minimum-image step length, 0.1 nm floor, force limit recomputed by a brute-force minimum-image reference model).",
   note="Trusted as for C03. Where twice the step length reaches the smallest box edge the step clause is weakened to 'some periodic image has the step length'.",
   technique="deterministic simulation: per-event invariants against a reference model under seeded schedules and forced rejections"),
 "C06": dict(level="exploration", design="§4 C06, §3 world A", quick_t=600, thorough_t=3600,
   text="Final-state check of every backmapped residue (centre, proper-rotation Kabsch fit of the scaled template, congruence, file agreement) in seeded builds where the orientation optimiser's result is replaced by arbitrary angle triples from the decision tape.",
   note="Trusted as for C03; templates are read from the captured topology (their own correctness is C15).",
   technique="deterministic simulation with fault injection on the orientation optimiser result"),
 "C07": dict(level="exploration", design="§4 C07, §3 world A", quick_t=900, thorough_t=3600,
   text="Final-state check of generated build-file restraints (geometric in/out, growth direction, distance restraints, cycles, persistence-length sampling) with independent predicates, under seeded RNG (incl. the OS-entropy re-seed) and forced step failures so that restraint bookkeeping has to survive rewinds and retries.",
   note="Trusted as for C03; restraint geometries are generated to be satisfiable; runs that hit the step cap are counted, not judged.",
   technique="deterministic simulation with fault injection: seeded RNG + forced rejections, restraint predicates on final state"),
 "C11": dict(level="exploration", design="§4 C11, §3 world C", quick_t=600, thorough_t=3600,
   text="Call histories of gen_params (generated .ff force fields and shipped libraries, with failing calls, re-used output paths, other cwd, bin/polyply main) run in pristine child interpreters under several hash seeds; after each successful call the file is read back with polyply's own topology reader and compared with the molecule intercepted at the writer.",
   note="Trusted: vermouth writer as the 'built molecule' observation point, numpy/networkx. Listing direction of bonded interactions and the impropers/dihedrals section split are treated as immaterial.",
   technique="deterministic simulation: seeded call histories in forked pristine interpreters, write/read round trip vs captured object"),
 "C13": dict(level="exploration", design="§4 C13, §3 world C", quick_t=900, thorough_t=3600,
   text="Each job is executed as a family: under 4 hash seeds, twice in a row, with permuted -f/definition order, as a library under permuted os.listdir, with relabelled/shuffled residue graph, and after histories of other (also failing) calls; atom tables and interaction multisets of all members must agree.",
   note="Definitions are non-conflicting by construction; order of interaction lines is not compared.",
   technique="deterministic simulation: environment (hash seed, listdir, file order) and call history as simulated dimensions, differential oracle"),
 "C20": dict(level="fault_enumeration", design="§4 C20, §9.1, §3 world C", quick_t=900, thorough_t=7200,
   text="A crash (BaseException) is injected at call boundaries into polyply/vermouth code before the publishing step: at EVERY boundary for one gen_params job (quick; 24 in thorough) and for all jobs with <= 300-600 boundaries (all gen_seq jobs), at the first call of every distinct function plus a seeded sample (denser after the first deferred_open) for the others (gen_coords: ~1e4 boundaries); each crash run continues with further operations in the same process. Directory snapshots at the crash instant, after the failed call and after the later operations must leave the output path and its backups untouched; swallowed failures count as successes; successful runs (also with the publishing rename failing with EXDEV) must publish the complete file and keep the previous one as GROMACS-style backup.",
   note="An exception at a call boundary stands for any failure at that stage; failures inside the final rename/copy are out of scope of the property. sys.settrace only sees Python-level calls; generator frames are not crash points.",
   technique="deterministic simulation with enumerated crash points (sys.settrace) and injected EXDEV, followed by further operations in the same process"),
 "C15": dict(level="exploration", design="§4 C15, §3 world A", quick_t=600, thorough_t=3600,
   text="Template generation under seeded RNG and forced optimiser failures (retry loop and fall-through); oracle on the captured topology (grouping, key sets, centring, virtual sites, tolerances, user templates/volumes, positive sizes).",
   note="Trusted as for C03. Only virtual_sitesn(1), virtual_sites2, virtual_sites3(1) are generated; atom names unique per residue.",
   technique="deterministic simulation with fault injection on the geometry optimiser verdict"),
 "C17": dict(level="fault_enumeration", design="§4 C17, §3 world A", quick_t=900, thorough_t=7200,
   text="All success/failure tapes of length L for placement steps (quick 2^8, thorough 2^12 per system) and of length 6 for whole attempts are enumerated on fixed small systems, plus sampled long bursty tapes; rollback/ordering invariants are checked at every event against a reference model.",
   note="Exhaustive over tapes up to the stated length for the chosen systems only; systems are sampled. Trusted as for C03.",
   technique="deterministic simulation with enumerated fault schedules (scripted step/attempt outcomes) and history invariants"),
 "C16": dict(level="exploration", design="§4 C16, §3 world B", quick_t=300, thorough_t=3600,
   text="Seeded operation histories on the real NonBondEngine, compared operation by operation with a brute-force "
        "reference model (positions dict + minimum-image 12-6 arithmetic) plus a white-box cross-check of the four internal views; "
        "sampling, not proof: histories up to 80 operations, <= 3 small molecules or 5000+ residues around the new-tree threshold.",
   note="Trusted: scipy KDTree, numpy. Re-adding a positioned residue without removal is treated as outside the contract. Every 10th run is a real gen_coords build with the shadow model attached (positions after each mutation, sampled overlap verdicts).",
   technique="deterministic simulation: seeded op histories vs executable reference model"),
}

NOT_APPLICABLE = {
 "C01": "pure input->output (block copy / re-index); no schedule, fault, time or history in the statement for a simulator to vary",
 "C02": "pure input->output (link matching iff-rule); needs an independent matcher over inputs, not a simulator",
 "C08": "pure function of the include tree; equivalence to the flattened file relates two inputs",
 "C09": "pure table lookup / arithmetic on parsed tables",
 "C10": "pure function of the built molecule (edge recount vs warnings)",
 "C12": "pure parsers / graph builders; random mixes are excluded by the property's own premise",
 "C14": "pure function of the built molecule (exclusion set by graph distance)",
 "C18": "pure selection logic over option strings; only the ligand clause touches the walk and is not enough to decide the property",
 "C19": "pure function of the sequence (complement involution)",
}

def main():
    claimed = sorted(CHECKS)
    all_ids = [json.loads(l)["id"] for l in open(os.path.join(HERE, "properties.jsonl"))]
    na = dict(NOT_APPLICABLE)
    for pid in all_ids:
        if pid not in claimed and pid not in na:
            na[pid] = "claimed in DESIGN.md; check not built yet (work in progress)"
    man = {
     "version": 1,
     "setup_cmd": PY + " -c \"import polyply, numpy, scipy, networkx, vermouth\"",
     "hooks": {"guard": "MARRINK_LAB_POLYPLY_1_0_VERIF",
               "enable": "no source hooks: all seams are monkeypatches installed by /verif at run time (checks set MARRINK_LAB_POLYPLY_1_0_VERIF=1 for form only)",
               "baseline_off_cmd": "cd /repo && /venv/bin/python -m pytest -ra -q -p no:cacheprovider --timeout=900 --continue-on-collection-errors",
               "source_commits": [], "add_only": True},
     "engines": [{"name": "simkit", "path": "/verif/simkit", "serves_properties": claimed,
                  "kind_free_text": "in-house deterministic simulation kit: seeded PRNG streams, decision tape, event recorder, greedy minimiser, replay files"}],
     "checks": [],
     "not_applicable": [{"property_id": k, "reason": v} for k, v in sorted(na.items()) if k not in claimed],
     "notes": "All checks: cd /verif && /venv/bin/python check.py <ID> --tier quick|thorough ; VERIF_SEED selects the batch; exit 0/1/2 = held / VIOLATION / HARNESS-ERROR. Genuine defects repaired by fix: commits are listed in known_findings.json.",
    }
    for pid in claimed:
        c = CHECKS[pid]
        man["checks"].append({
            "property_id": pid,
            "quick_cmd": f"timeout {c['quick_t']} {PY} check.py {pid} --tier quick",
            "thorough_cmd": f"timeout {c['thorough_t']} {PY} check.py {pid} --tier thorough --budget {int(c['thorough_t']*0.8)}",
            "evidence_file": f"/verif/evidence/{pid}.json",
            "replay_cmd_template": f"{PY} check.py {pid} --replay {{path}}",
            "engine": "simkit",
            "level_claimed": {"category": c["level"], "text": c["text"], "design_ref": c["design"]},
            "level_note": c["note"],
            "technique": c["technique"],
        })
    with open(os.path.join(HERE, "MANIFEST.json"), "w") as fh:
        json.dump(man, fh, indent=1)
    print("claimed", claimed, "not_applicable", [x["property_id"] for x in man["not_applicable"]])

if __name__ == "__main__":
    main()

"""Client side of worlds/zygote.py: one long-lived zygote interpreter per PYTHONHASHSEED
per pool worker; every history runs in a pristine forked child of it."""
import atexit
import json
import os
import subprocess
import sys

from .core import HarnessError

VERIF = os.path.dirname(os.path.dirname(os.path.abspath(__file__)))
_Z = {}


def _start(hashseed):
    env = dict(os.environ)
    env["PYTHONHASHSEED"] = str(hashseed)
    env["TQDM_DISABLE"] = "1"
    proc = subprocess.Popen([sys.executable, os.path.join(VERIF, "worlds", "zygote.py")], env=env,
                            stdin=subprocess.PIPE, stdout=subprocess.PIPE, stderr=subprocess.DEVNULL,
                            text=True, bufsize=1)
    line = proc.stdout.readline()
    try:
        hello = json.loads(line)
    except Exception:
        raise HarnessError(f"zygote for hash seed {hashseed} did not start: {line!r}")
    repo = os.path.realpath(os.environ.get("VERIF_REPO", "/repo"))
    if not hello.get("polyply", "").startswith(repo):
        raise HarnessError(f"zygote imported polyply from {hello.get('polyply')}, expected under {repo}")
    return proc


def run_history(hashseed, hist, timeout=120):
    proc = _Z.get(hashseed)
    if proc is None or proc.poll() is not None:
        proc = _start(hashseed)
        _Z[hashseed] = proc
    proc.stdin.write(json.dumps({"hist": hist, "timeout": timeout}) + "\n")
    proc.stdin.flush()
    line = proc.stdout.readline()
    if not line:
        _Z.pop(hashseed, None)
        raise HarnessError(f"zygote for hash seed {hashseed} died")
    rep = json.loads(line)
    if not rep.get("ok"):
        raise HarnessError(f"history failed inside the harness: {rep.get('error')}")
    return rep["result"]


def shutdown():
    for proc in _Z.values():
        try:
            proc.stdin.close()
            proc.terminate()
        except Exception:
            pass
    _Z.clear()


atexit.register(shutdown)

"""simkit.driver - batch execution, determinism self-test, minimisation, replay files,
known-findings matching and evidence writing, shared by all checks.

A check module provides:
  PROP, LEVEL, RULE (text), ASSUMPTIONS (list), REAL_VS_STUB (dict)
  n_runs(tier) -> int
  gen_job(verif_seed, tier, index) -> job (JSON-able dict, must contain "index")
  run_job(job) -> result dict:
        status        ok | violation | rejected | crash | harness_error
        violations    [ {property, clause, msg, seq, facts} ]   (all properties seen)
        digest        event-log digest
        events        number of events (simulated time)
        signature     schedule signature string
        nontrivial    bool (by the property's rule)
        faults        {kind: fired count}
        probes        {name: count}
        sample        small JSON-able description of the case
  reductions(job) -> iterator of smaller jobs (one-step reductions, preferred first)
  (optional) extra_selftests(ctx) -> list of strings (problems)
"""
import concurrent.futures as cf
import faulthandler
import hashlib
import importlib
import json
import multiprocessing
import os
import signal
import subprocess
import sys
import time
import traceback

from .core import SimAbort, dumps, jsonable

VERIF = os.path.dirname(os.path.dirname(os.path.abspath(__file__)))
JOB_TIMEOUT = int(os.environ.get("VERIF_JOB_TIMEOUT", "120"))


# ----------------------------------------------------------------------------- workers
def _alarm(signum, frame):
    raise SimAbort("wall-clock watchdog")


def _worker_init():
    signal.signal(signal.SIGALRM, _alarm)
    # never let a dying parent leave orphans spinning
    try:
        import ctypes
        ctypes.CDLL("libc.so.6").prctl(1, signal.SIGKILL)
    except Exception:
        pass


def _exec_job(modname, job, timeout=None):
    mod = importlib.import_module(modname)
    timeout = timeout or getattr(mod, "JOB_TIMEOUT", JOB_TIMEOUT)
    signal.signal(signal.SIGALRM, _alarm)
    signal.alarm(timeout)
    try:
        res = mod.run_job(job)
    except SimAbort as err:
        res = {"status": "harness_error", "error": f"watchdog: {err}", "violations": []}
    except BaseException as err:       # harness bug: anything escaping run_job
        res = {"status": "harness_error", "violations": [],
               "error": "".join(traceback.format_exception(type(err), err, err.__traceback__))[-3000:]}
    finally:
        signal.alarm(0)
    res.setdefault("violations", [])
    res.setdefault("faults", {})
    res.setdefault("probes", {})
    res.setdefault("events", 0)
    res.setdefault("signature", "")
    res.setdefault("digest", "")
    res.setdefault("nontrivial", False)
    return res


def _run_index(args):
    modname, verif_seed, tier, index, want_job = args
    mod = importlib.import_module(modname)
    try:
        job = mod.gen_job(verif_seed, tier, index)
    except BaseException as err:
        return {"index": index, "status": "harness_error", "violations": [],
                "error": "gen_job: " + "".join(traceback.format_exception(type(err), err, err.__traceback__))[-3000:],
                "faults": {}, "probes": {}, "events": 0, "signature": "", "digest": "", "nontrivial": False}
    t0 = time.time()
    res = _exec_job(modname, job)
    res["wall"] = round(time.time() - t0, 3)
    res["index"] = index
    if want_job or res["status"] in ("violation", "crash", "harness_error", "rejected"):
        res["job"] = job
    return res


def _run_given(args):
    modname, job = args
    res = _exec_job(modname, job)
    return res


def make_pool(nworkers):
    ctx = multiprocessing.get_context("fork")
    return cf.ProcessPoolExecutor(max_workers=nworkers, mp_context=ctx, initializer=_worker_init)


# ----------------------------------------------------------------------------- findings
def load_known():
    path = os.path.join(VERIF, "known_findings.json")
    if not os.path.exists(path):
        return []
    return json.load(open(path))["findings"]


def match_known(viol, known):
    """A violation is attributed to a known finding only if property, clause and the
    trigger predicate (evaluated on the violation's facts) all match."""
    from . import triggers
    for ent in known:
        if ent.get("status") != "known":
            continue
        if ent["property"] != viol["property"] or ent["clause"] != viol["clause"]:
            continue
        pred = getattr(triggers, ent["trigger"], None)
        if pred is None:
            continue
        try:
            if pred(viol.get("facts", {})):
                return ent
        except Exception:
            continue
    return None


# ----------------------------------------------------------------------------- shrink
def shrink(mod, modname, job, target, pool, budget_runs=200, budget_s=120):
    """Greedy reduction: accept a candidate only if the same (property, clause) fails."""
    t0 = time.time()
    runs = 0
    cur = job
    improved = True
    while improved and runs < budget_runs and time.time() - t0 < budget_s:
        improved = False
        cands = []
        for cand in mod.reductions(cur):
            cands.append(cand)
            if len(cands) >= 16:
                break
        if not cands:
            break
        # evaluate a wave of candidates in parallel, keep the first (most preferred) that still fails
        futs = [pool.submit(_run_given, (modname, c)) for c in cands]
        runs += len(cands)
        results = []
        for f in futs:
            try:
                results.append(f.result(timeout=getattr(mod, 'JOB_TIMEOUT', JOB_TIMEOUT) + 30))
            except Exception:
                results.append({"violations": []})
        for cand, res in zip(cands, results):
            if any(v["property"] == target[0] and v["clause"] == target[1] for v in res.get("violations", [])):
                cur = cand
                improved = True
                break
        if not improved:
            # try further candidates beyond the first wave once
            more = []
            gen = mod.reductions(cur)
            for k, cand in enumerate(gen):
                if k < 16:
                    continue
                more.append(cand)
                if len(more) >= 48:
                    break
            if more and runs < budget_runs:
                futs = [pool.submit(_run_given, (modname, c)) for c in more]
                runs += len(more)
                for cand, f in zip(more, futs):
                    try:
                        res = f.result(timeout=getattr(mod, 'JOB_TIMEOUT', JOB_TIMEOUT) + 30)
                    except Exception:
                        continue
                    if any(v["property"] == target[0] and v["clause"] == target[1]
                           for v in res.get("violations", [])):
                        cur = cand
                        improved = True
                        break
    return cur, runs


# ----------------------------------------------------------------------------- evidence
def _out_root():
    """evidence and replays of runs against a scratch copy (mutants, seeded changes: VERIF_REPO set) must never
    overwrite the evidence of /repo itself"""
    if os.environ.get("VERIF_OUT_ROOT"):
        return os.environ["VERIF_OUT_ROOT"]
    repo = os.path.realpath(os.environ.get("VERIF_REPO", "/repo"))
    if repo != os.path.realpath("/repo"):
        import tempfile
        d = os.path.join(tempfile.gettempdir(), "verif_scratch_out")
        os.makedirs(d, exist_ok=True)
        return d
    return VERIF


def write_evidence(prop, payload):
    os.makedirs(os.path.join(_out_root(), "evidence"), exist_ok=True)
    path = os.path.join(_out_root(), "evidence", f"{prop}.json")
    tmp = path + ".tmp"
    with open(tmp, "w") as fh:
        json.dump(jsonable(payload), fh, indent=1, sort_keys=True)
    os.replace(tmp, path)
    return path


def write_replay(prop, verif_seed, index, payload):
    os.makedirs(os.path.join(_out_root(), "replays"), exist_ok=True)
    path = os.path.join(_out_root(), "replays", f"{prop}-{verif_seed}-{index}.json")
    with open(path, "w") as fh:
        json.dump(jsonable(payload), fh, indent=1, sort_keys=True)
    return path


# ----------------------------------------------------------------------------- main loop
def fresh_digests(modname, prop, verif_seed, tier, indices, hashseed):
    """Digests of the given run indices computed in a fresh interpreter under another
    PYTHONHASHSEED (determinism self-test)."""
    env = dict(os.environ)
    env["PYTHONHASHSEED"] = str(hashseed)
    env["VERIF_SEED"] = str(verif_seed)
    env["VERIF_NO_REEXEC"] = "1"
    cmd = [sys.executable, os.path.join(VERIF, "check.py"), prop, "--tier", tier,
           "--digests", ",".join(map(str, indices))]
    out = subprocess.run(cmd, env=env, capture_output=True, text=True, timeout=600)
    res = {}
    for line in out.stdout.splitlines():
        if line.startswith("DIGEST "):
            _, i, d = line.split()
            res[int(i)] = d
    if len(res) != len(indices):
        raise RuntimeError(f"fresh interpreter digests failed: {out.stdout[-500:]} {out.stderr[-1500:]}")
    return res


def run_check(modname, tier, verif_seed, nworkers, n_override=None, selftest=True, budget_s=None):
    mod = importlib.import_module(modname)
    prop = mod.PROP
    t0 = time.time()
    n = n_override or mod.n_runs(tier)
    known = load_known()
    print(f"[{prop}] VERIF_SEED={verif_seed} tier={tier} runs={n} workers={nworkers}", flush=True)
    faulthandler.enable()

    results = []
    status_counts = {}
    harness_errors = []
    # ---- known findings of this property: replay the stored case, announce it
    for ent in known:
        if ent.get("status") != "known" or ent["property"] != prop:
            continue
        rp = os.path.join(VERIF, ent.get("replay", ""))
        still = None
        if ent.get("replay") and os.path.exists(rp):
            rep = json.load(open(rp))
            res = _exec_job(rep.get("module", modname), rep["job"])
            still = any(v["property"] == ent["property"] and v["clause"] == ent["clause"] and match_known(v, [ent])
                        for v in res.get("violations", []))
        print(f"KNOWN-FINDING: property={prop} {ent['what']} (id={ent['id']}"
              f"{'' if still is None else ', stored case reproduces' if still else ', stored case NO LONGER reproduces'})")
    pool = make_pool(nworkers)
    deadline = (t0 + budget_s) if budget_s else None
    try:
        sample_every = max(1, n // 6)
        args = [(modname, verif_seed, tier, i, (i % sample_every == 0)) for i in range(n)]
        chunks = max(1, min(8, n // (nworkers * 4) or 1))
        done = 0
        futs = {}
        it = iter(args)
        inflight_max = nworkers * 3
        pending = set()
        exhausted = False
        stopped_early = False
        while True:
            while not exhausted and len(pending) < inflight_max:
                if deadline and time.time() > deadline:
                    exhausted = True
                    stopped_early = True
                    break
                try:
                    a = next(it)
                except StopIteration:
                    exhausted = True
                    break
                pending.add(pool.submit(_run_index, a))
            if not pending:
                break
            finished, pending = cf.wait(pending, timeout=getattr(mod, "JOB_TIMEOUT", JOB_TIMEOUT) + 60,
                                        return_when=cf.FIRST_COMPLETED)
            if not finished:
                harness_errors.append("worker stalled beyond watchdog")
                break
            for f in finished:
                try:
                    res = f.result()
                except Exception as err:  # dead worker
                    harness_errors.append(f"worker died: {err!r}")
                    continue
                results.append(res)
                done += 1
        results.sort(key=lambda r: r["index"])

        # ---------------- determinism self-test
        det = {"same_process_pairs": 0, "fresh_interpreter": 0, "mismatch": []}
        if selftest and results:
            k = 12 if tier == "quick" else 48
            k = getattr(mod, "SELFTEST_K", {}).get(tier, k)
            cheap = sorted(results, key=lambda r: (r.get("wall", 0) > 20, r["index"]))
            cheap = [r for r in cheap if r.get("wall", 0) <= 20] or cheap
            idxs = [r["index"] for r in cheap[:: max(1, len(cheap) // k)]][:k]
            again = list(pool.map(_run_index, [(modname, verif_seed, tier, i, False) for i in idxs]))
            first = {r["index"]: r for r in results}
            for r in again:
                det["same_process_pairs"] += 1
                if r["digest"] != first[r["index"]]["digest"]:
                    det["mismatch"].append(("rerun", r["index"], first[r["index"]]["digest"], r["digest"]))
            sub = idxs[: (4 if tier == "quick" else 12)]
            try:
                fd = fresh_digests(modname, prop, verif_seed, tier, sub,
                                   hashseed=1 + (verif_seed % 1000))
                for i, d in fd.items():
                    det["fresh_interpreter"] += 1
                    if d != first[i]["digest"]:
                        det["mismatch"].append(("fresh", i, first[i]["digest"], d))
            except Exception as err:
                harness_errors.append(f"determinism self-test: {err}")
            if det["mismatch"]:
                harness_errors.append(f"nondeterministic runs: {det['mismatch'][:4]}")

        # ---------------- classify
        violations = []        # (result, violation) of this property
        other = {}
        other_examples = {}
        for r in results:
            status_counts[r["status"]] = status_counts.get(r["status"], 0) + 1
            if r["status"] == "harness_error":
                harness_errors.append(f"run {r['index']}: {r.get('error', '')[-1500:]}")
            for v in r.get("violations", []):
                if v["property"] == prop:
                    violations.append((r, v))
                else:
                    key = f"{v['property']}.{v['clause']}"
                    other[key] = other.get(key, 0) + 1
                    other_examples.setdefault(key, [])
                    if len(other_examples[key]) < 3:
                        other_examples[key].append({"index": r["index"], "msg": v["msg"][:300]})

        reported = []
        known_hit = {}
        seen_classes = {}
        for r, v in violations:
            ent = match_known(v, known)
            if ent is not None:
                known_hit.setdefault(ent["id"], [ent, 0])[1] += 1
                continue
            seen_classes.setdefault((v["property"], v["clause"]), []).append((r, v))

        # minimise one representative per clause (first by run index)
        for (p, c), lst in sorted(seen_classes.items()):
            r, v = lst[0]
            job = r.get("job") or mod.gen_job(verif_seed, tier, r["index"])
            small, nshr = shrink(mod, modname, job, (p, c), pool,
                                 budget_runs=200 if tier == "quick" else 400,
                                 budget_s=90 if tier == "quick" else 180)
            final = _exec_job(modname, small)
            vv = [x for x in final.get("violations", []) if x["property"] == p and x["clause"] == c]
            if not vv:      # should not happen (determinism); fall back to the original job
                small, final, vv = job, r, [v]
            ent = match_known(vv[0], known)
            if ent is not None:
                known_hit.setdefault(ent["id"], [ent, 0])[1] += len(lst)
                continue
            path = write_replay(prop, verif_seed, r["index"], {
                "property": p, "clause": c, "violation": vv[0], "job": small,
                "digest": final.get("digest"), "tail": final.get("tail", []),
                "verif_seed": verif_seed, "run_index": r["index"], "tier": tier,
                "shrink_runs": nshr, "module": modname, "occurrences": len(lst)})
            reported.append((p, c, vv[0]["msg"], path, len(lst)))
    finally:
        pool.shutdown(wait=False, cancel_futures=True)

    wall = time.time() - t0
    if os.environ.get("VERIF_DUMP_DIGESTS"):
        with open(os.environ["VERIF_DUMP_DIGESTS"], "w") as fh:
            json.dump({str(r["index"]): r.get("digest") for r in results}, fh)
    # ---------------- evidence
    faults = {}
    probes = {}
    sigs = set()
    events = 0
    for r in results:
        for k, val in r.get("faults", {}).items():
            faults[k] = faults.get(k, 0) + val
        for k, val in r.get("probes", {}).items():
            probes[k] = probes.get(k, 0) + val
        events += r.get("events", 0)
        if r.get("nt_keys") is not None:
            sigs.update(r["nt_keys"])
        elif r.get("nontrivial"):
            sigs.add(hashlib.sha256((r.get("signature", "") + "|" + str(r.get("ntkey", ""))).encode()).hexdigest()[:16])
    samples = [{"index": r["index"], "status": r["status"], "signature": r.get("signature", "")[:200],
                "case": r.get("sample")} for r in results if r.get("sample") is not None][:6]
    if not samples and results:
        samples = [{"index": results[0]["index"], "status": results[0]["status"]}]
    stuck = sorted(k for k in getattr(mod, "PROBES", []) if not probes.get(k))
    evidence = {
        "property_id": prop, "tier": tier, "seed": verif_seed, "level": mod.LEVEL,
        "wall_s": round(wall, 2), "violations": len(reported),
        "coverage": {
            "evaluations": sum(r.get("evals", 1) for r in results),
            "jobs": len(results),
            "distinct_nontrivial": len(sigs),
            "rule": mod.RULE,
            "samples": samples,
            "exhaustive": bool(getattr(mod, "EXHAUSTIVE", {}).get(tier, False)),
            "runs_per_hour": int(len(results) / wall * 3600) if wall > 0 else 0,
            "simulated_time_events": events,
            "fault_kinds_fired": faults,
            "probes": probes,
            "probes_stuck_at_zero": stuck,
            "status_counts": status_counts,
            "runs_not_evaluated_harness_error": status_counts.get("harness_error", 0),
            "other_property_violations_seen": other,
            "other_property_violation_examples": other_examples,
            "known_findings_hit": {k: v[1] for k, v in known_hit.items()},
            "determinism_selftest": {k: v for k, v in det.items()} if selftest and results else {},
            "real_vs_stub": getattr(mod, "REAL_VS_STUB", {}),
            "stopped_early_on_budget": stopped_early,
            "slowest_runs": sorted(((r.get("wall", 0), r["index"]) for r in results), reverse=True)[:5],
            "run_seeds": f"sha256('{prop}:{verif_seed}:<i>')[:16] for i in 0..{n - 1}",
        },
        "assumptions": list(getattr(mod, "ASSUMPTIONS", [])),
    }
    if hasattr(mod, "extra_evidence"):
        evidence["coverage"].update(mod.extra_evidence(results, tier))
    write_evidence(prop, evidence)

    for ent, cnt in known_hit.values():
        print(f"[{prop}] known finding {ent['id']} met {cnt}x during exploration")
    rc = 0
    for p, c, msg, path, cnt in reported:
        print(f"VIOLATION property={p} replay={path}")
        print(f"  clause={c} occurrences={cnt}: {msg}")
        rc = 1
    rej = status_counts.get("rejected", 0)
    if results and rej > 0.05 * len(results):
        harness_errors.append(f"generator emits too many rejected inputs: {rej}/{len(results)}")
    if len(results) < n and not stopped_early:
        harness_errors.append(f"only {len(results)} of {n} runs completed")
    # isolated harness errors of single runs (a generator or oracle bug on a rare input) are listed, counted in the
    # evidence and tolerated up to 0.5 % of the runs; anything else (determinism, dead workers, many errors) fails
    run_errs = [h for h in harness_errors if h.startswith("run ")]
    other_errs = [h for h in harness_errors if not h.startswith("run ")]
    if run_errs and not other_errs and len(run_errs) <= max(1, len(results) // 200) and rc == 0:
        for h in run_errs[:5]:
            print("HARNESS-NOTE (run not evaluated)", h[:1500])
        harness_errors = []
    if harness_errors and rc == 0:
        for h in harness_errors[:10]:
            print("HARNESS-ERROR", h)
        rc = 2
    elif harness_errors:
        for h in harness_errors[:10]:
            print("HARNESS-ERROR", h)
    print(f"[{prop}] runs={len(results)} nontrivial_distinct={len(sigs)} status={status_counts} "
          f"faults={faults} wall={wall:.1f}s rc={rc}")
    if other:
        print(f"[{prop}] (not counted here) violations of other properties seen: {other}")
        for key, exs in other_examples.items():
            for ex in exs[:2]:
                print(f"[{prop}]    e.g. {key} in run {ex['index']}: {ex['msg'][:200]}")
    return rc


def replay(modname, path):
    rep = json.load(open(path))
    mod = importlib.import_module(rep.get("module", modname))
    res = _exec_job(rep.get("module", modname), rep["job"])
    same = [v for v in res.get("violations", [])
            if v["property"] == rep["property"] and v["clause"] == rep["clause"]]
    print(f"replay digest={res.get('digest')} recorded={rep.get('digest')} status={res['status']}")
    if same:
        print(f"VIOLATION property={rep['property']} replay={path}")
        print(f"  clause={rep['clause']}: {same[0]['msg']}")
        if res.get("digest") != rep.get("digest"):
            print("  (note: digest differs from recorded run)")
        return 1
    if res["status"] == "harness_error":
        print("HARNESS-ERROR", res.get("error"))
        return 2
    print("replay did not reproduce the violation")
    return 0

"""Trigger predicates for known findings, evaluated on a (minimised) violation's facts.

An entry of known_findings.json covers exactly the situation its trigger describes; a
violation of the same property/clause with other facts is still reported."""


def partially_supplied_molecule_and_failed_attempt(f):
    return bool(f.get("partially_supplied")) and bool(f.get("failed_attempt_before"))


def ignored_molecule_present(f):
    return bool(f.get("ignored_present"))


def node_keys_not_zero_based(f):
    return bool(f.get("node_keys_not_zero_based"))


def pair_across_boundary(f):
    return bool(f.get("pair_across_boundary"))


def restricted_step_wrapped(f):
    return bool(f.get("step_wrapped"))


def ring_size_ge_4(f):
    return f.get("ring_size", 0) >= 4


def failed_op_before_successful_op(f):
    return bool(f.get("failed_op_before"))


def optimiser_exhausted(f):
    return bool(f.get("optimiser_exhausted"))


def start_by_name_with_cached_tree(f):
    return bool(f.get("start_option")) and bool(f.get("tree_cached_before_walk"))


def residue_pair_joined_by_nonbond_only(f):
    """every requested residue edge that is not realised by a bond/constraint/virtual site is realised by some
    other interaction (angle, dihedral) of a link - and nothing else is wrong"""
    return f.get("nonbond_only_pairs", 0) >= 1 and f.get("unexplained_pairs", 0) == 0


def conditional_include_after_inline_moleculetype(f):
    return bool(f.get("cond_include"))


def ff_link_with_nonbonded_span_and_itp_file_read_later(f):
    return f.get("dimension") == "fileorder"


def bonded_residues_share_a_residue_number(f):
    return bool(f.get("resid_restart"))


def dsdna_with_json_keys_not_ascending_along_the_strand(f):
    return f.get("dimension") == "relabel"


def cyclic_molecule_with_residues_outside_the_ring(f):
    return bool(f.get("ring_with_side_chain"))


def ff_block_with_nonbonded_span_mixed_nrexcl_and_itp_file_read_later(f):
    return f.get("dimension") in ("fileorder", "listdir")


def two_from_itp_fragments_with_keys_not_in_resid_order(f):
    return f.get("dimension") == "relabel"


def atom_deleting_link_applied(f):
    return bool(f.get("removal_link"))


def atom_deleting_link_removes_node_1_or_2(f):
    return bool(f.get("removal_link"))


def atom_deleting_link_and_requested_edge_without_link(f):
    return bool(f.get("removal_link"))


def default_grid_point_on_upper_box_face(f):
    return bool(f.get("grid_point_on_box_face"))

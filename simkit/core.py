"""simkit.core - seeds, PRNG streams, decision tape, event recorder, run classification.

One integer decides everything: VERIF_SEED -> run_seed(property, VERIF_SEED, i) ->
four named random.Random streams.  Nothing in here reads a clock or os.urandom.
"""
import hashlib
import json
import math
import random

import numpy as np


# ----------------------------------------------------------------------------- seeds
def h64(text):
    return int(hashlib.sha256(text.encode()).hexdigest()[:16], 16)


def run_seed(prop, verif_seed, index):
    """Pure function (property, VERIF_SEED, run index) -> 64 bit run seed."""
    return h64(f"{prop}:{verif_seed}:{index}")


class Streams:
    """Independent named PRNG streams of one run; adding a draw in one never shifts another."""

    NAMES = ("gen", "tape", "sys", "env")

    def __init__(self, seed):
        self.seed = seed
        for name in self.NAMES:
            setattr(self, name, random.Random(h64(f"{seed}:{name}")))

    def sub(self, name):
        return random.Random(h64(f"{self.seed}:{name}"))


# ----------------------------------------------------------------------------- tape
class Tape:
    """Finite list of small ints consumed in order by the buggify points.

    When exhausted every site answers 0 = "no fault": faults stop.  The tape (not
    the PRNG) is what a replay file stores and what the minimiser shrinks.
    Per-site tapes keep sites independent: dropping an entry of one site does not
    shift the decisions seen by another site.
    """

    def __init__(self, lanes=None):
        self.lanes = {k: list(v) for k, v in (lanes or {}).items()}
        self.pos = {k: 0 for k in self.lanes}
        self.fired = {}

    def next(self, site):
        lane = self.lanes.get(site)
        if lane is None:
            return 0
        i = self.pos[site]
        if i >= len(lane):
            return 0
        self.pos[site] = i + 1
        val = lane[i]
        if val:
            self.fired[site] = self.fired.get(site, 0) + 1
        return val

    def exhausted(self, site=None):
        if site is not None:
            return self.pos.get(site, 0) >= len(self.lanes.get(site, ()))
        return all(self.pos[k] >= len(v) for k, v in self.lanes.items())

    def to_json(self):
        return {k: list(v) for k, v in self.lanes.items()}

    def consumed(self):
        """lanes truncated to what was actually read (a smaller equivalent tape)."""
        return {k: list(v[:self.pos[k]]) for k, v in self.lanes.items()}


def draw_lane(rng, length, density, bursty=False, maxval=1):
    """Draw one tape lane: entries non-zero with probability `density`; bursty lanes
    cluster the faults in runs (faults right after each other revisit fewer states)."""
    lane = []
    if not bursty:
        for _ in range(length):
            lane.append(rng.randint(1, maxval) if rng.random() < density else 0)
        return lane
    while len(lane) < length:
        if rng.random() < density:
            burst = rng.randint(2, 8)
            lane.extend(rng.randint(1, maxval) for _ in range(burst))
        else:
            lane.extend([0] * rng.randint(1, 10))
    return lane[:length]


# ----------------------------------------------------------------------------- results
class Violation(Exception):
    """An oracle failed.  Carries property id, clause id, message, event seq and facts
    (a small JSON-able dict used by the known-findings trigger predicates)."""

    def __init__(self, prop, clause, msg, seq=None, facts=None):
        super().__init__(f"{prop}.{clause}: {msg}")
        self.prop = prop
        self.clause = clause
        self.msg = msg
        self.seq = seq
        self.facts = facts or {}

    def to_json(self):
        return {"property": self.prop, "clause": self.clause, "msg": self.msg,
                "seq": self.seq, "facts": self.facts}


class HarnessError(Exception):
    """Problem inside /verif (missing seam, generator bug, watchdog on calibration)."""


class SimAbort(BaseException):
    """Raised by the harness watchdog to stop a run that makes no progress."""


class SimCrash(BaseException):
    """Injected crash (BaseException so that no `except Exception` in the code eats it)."""


# ----------------------------------------------------------------------------- recorder
def _canon(v):
    if isinstance(v, (float, np.floating)):
        v = float(v)
        if math.isnan(v):
            return "nan"
        if math.isinf(v):
            return "inf" if v > 0 else "-inf"
        return repr(round(v, 9) + 0.0)
    if isinstance(v, (int, np.integer)):
        return repr(int(v))
    if isinstance(v, np.ndarray):
        return "[" + ",".join(_canon(x) for x in v.tolist()) + "]"
    if isinstance(v, (list, tuple)):
        return "[" + ",".join(_canon(x) for x in v) + "]"
    if isinstance(v, dict):
        return "{" + ",".join(f"{k}:{_canon(v[k])}" for k in sorted(v, key=str)) + "}"
    if isinstance(v, (set, frozenset)):
        return "{" + ",".join(sorted(_canon(x) for x in v)) + "}"
    return str(v)


class Recorder:
    """Totally ordered event list; seq = global event number = simulated time."""

    def __init__(self, keep=True):
        self.events = []
        self.keep = keep
        self.seq = 0
        self._h = hashlib.sha256()
        self.counts = {}
        self.sig = []          # schedule signature symbols

    def emit(self, kind, **fields):
        self.seq += 1
        line = kind + "|" + "|".join(f"{k}={_canon(fields[k])}" for k in fields)
        self._h.update(line.encode())
        self._h.update(b"\n")
        self.counts[kind] = self.counts.get(kind, 0) + 1
        if self.keep:
            self.events.append(line)
        return self.seq

    def symbol(self, sym):
        self.sig.append(sym)

    def digest(self):
        return self._h.hexdigest()[:24]

    def signature(self):
        return "".join(self.sig)

    def tail(self, n=50):
        return self.events[-n:]


def jsonable(obj):
    """Best effort conversion of numpy-laden structures into JSON-able ones."""
    if isinstance(obj, dict):
        return {str(k): jsonable(v) for k, v in obj.items()}
    if isinstance(obj, (list, tuple, set, frozenset)):
        return [jsonable(v) for v in obj]
    if isinstance(obj, np.ndarray):
        return jsonable(obj.tolist())
    if isinstance(obj, (np.integer,)):
        return int(obj)
    if isinstance(obj, (np.floating,)):
        return jsonable(float(obj))
    if isinstance(obj, float):
        if math.isnan(obj) or math.isinf(obj):
            return repr(obj)
        return obj
    if isinstance(obj, (str, int, bool)) or obj is None:
        return obj
    return repr(obj)


def dumps(obj):
    return json.dumps(jsonable(obj), sort_keys=True)
